import SR.Proofs.MarketOracle
/-!
# C05 — adequacy of the job-market bookkeeping oracle `o-mk` (`Drv/C05.lean`: `oracle`, `oracleEnd`)

All theorems are about `oracleR` (`SR/Proofs/MarketOracle.lean`), a literal copy of `Drv.C05.oracle`, whose `.split`
clause demands conservation only (kept jobs a sub-multiset of the deque, `eraseAll?`; the former clause demanded that they
are the PREFIX, an over-demand: C05 does not pin which jobs `split_and_push` keeps — `C05_oracle_split_relaxed`).
`C05_oracle_is_relaxed : oracle = oracleR` (end of the file) carries them to the live oracle and to `handle`.

Property theorems only; definitions and lemmas are in `SR/Proofs/MarketOracle.lean`.

**Model side.**  `mkRun s evs` is the driver's `replay` (`mk-run`) with answers as data (`Ans`) and `none` where `replay`
answers `!disabled` / `!unwoken` / `!spurious` (`replay_of_mkRun`): an event list is a run of `Market.stepR` in which a
notified worker wakes before anybody else acts and `notify_one`'s choice is read off the following `wake` events.
`Renders a r`: the result S-expression `r` is read by the oracle as the model's answer `a` (`park`, a token list, `t`/`f`;
results the oracle never looks at are unconstrained).  Rendering is stated as a hypothesis and not through `toString`/
`String.toNat?` (I/O glue, no kernel reduction): the theorems hold for EVERY rendering that parses back.

**No false alarm** (`C05_oracle_accepts_model_runs_partial`): for `tc ≤ k` every disciplined run of the model is accepted
by `oracle`, `oracleEnd` answers `none` wherever the run may end (`mayEnd`), and the driver command answers `ok`
(`C05_oracle_handle_ok`).  `disciplined`: no `xpush` / `push` / `split` on a closed market before the oracle has been
told of the stop (`tfire`, `drop`, `xdrop`, a `shut` or `closed` probe answered true) — what `Session::run_op` of
harness/src/market_h.rs guarantees by logging `(shut)` right after the operation (and its wake-ups) that changed the
answer of `is_shut_down()`.  WITHOUT that hypothesis the statement is FALSE (`C05_oracle_rejects_undisciplined_run`:
`(pop 0) (xpush 5) (shut)` with one worker is a legal model run and is answered
`closed-by-last-worker-with-jobs-on-the-market`): machinery finding, the precondition is not written down in `Drv/C05.lean`.
`tc ≤ k` (hypothesis of all C05 market theorems) is needed as well (`C05_oracle_rejects_tc_gt_k`).

**Teeth** (`C05_oracle_sound`): whatever list of events and results `oracle` accepts, the `Ledger` read off the
observations alone (what was handed to the market, what was handed out, who sleeps, who left — no check) satisfies the
observable content of `C05_conservation` and `C05_no_lost_wakeup`.
-/
namespace SR.C05Oracle
open SR SR.Market SR.Drv.C05

/-! ## 1. no false alarm -/

/-
The FULL statement (for the record; it is false, see `C05_oracle_rejects_undisciplined_run`):

  theorem C05_oracle_accepts_model_runs (k tc : Nat) (h : tc ≤ k) (evs as sf rs)
      (hrun : mkRun (init k tc) evs = some (as, sf)) (hrs : RendersAll as rs) :
      ∃ of, oracleR k { locs := List.replicate k [] } evs rs = .ok of ∧ (mayEnd sf = true → oracleEnd of = none)
-/

/-- **Every disciplined run of the market machine passes the oracle.**  `tc ≤ k`, `evs` an event list the model accepts
    from the initial state with answers `as` and final state `sf`, `rs` any results that render `as`, the harness
    discipline `disciplined`: then `oracle` accepts (no error), the simulation relation `Sim` holds between the final
    states, `oracleEnd` has no complaint wherever the run may end (`mayEnd sf`: no notified worker still to wake, and an
    open market holds no job), and then the answer of `o-mk` is `ok`. -/
theorem C05_oracle_accepts_model_runs_partial (k tc : Nat) (h : tc ≤ k) (evs : List Ev) (as : List Ans)
    (sf : MState) (rs : List SExp)
    (hrun : mkRun (init k tc) evs = some (as, sf))
    (hdisc : disciplined (init k tc) false evs = true)
    (hrs : RendersAll as rs) :
    (∃ of, oracleR k { locs := List.replicate k [] } evs rs = .ok of ∧ Sim k sf of ∧
      (mayEnd sf = true → oracleEnd of = none))
    ∧ (mayEnd sf = true → verdict k evs rs = "ok") := by
  obtain ⟨of, h1, h2⟩ := sim_run evs (init k tc) { locs := List.replicate k [] } as sf rs (sim_init k tc h) hrun hdisc hrs
  refine ⟨⟨of, h1, h2, sim_end h2⟩, ?_⟩
  intro he
  simp [verdict, h1, sim_end h2 he]

/-- the model side IS the driver's `mk-run`: the answers of `replay` are the renderings of `as` -/
theorem C05_oracle_model_side_is_replay (s : MState) (evs : List Ev) (as : List Ans) (sf : MState)
    (h : mkRun s evs = some (as, sf)) : replay s evs = (as.map Ans.str, sf) := replay_of_mkRun h

/-- the run may end when all workers have returned (at least one worker): `join` has come back -/
theorem C05_oracle_end_all_exited (k tc : Nat) (h : tc ≤ k) (hk : 0 < k) (evs : List Ev) (as : List Ans)
    (sf : MState) (rs : List SExp)
    (hrun : mkRun (init k tc) evs = some (as, sf))
    (hdisc : disciplined (init k tc) false evs = true)
    (hrs : RendersAll as rs) (hex : ∀ p, p ∈ sf.pcs → p = Pc.exited) :
    verdict k evs rs = "ok" := by
  obtain ⟨⟨of, _, hs, _⟩, hv⟩ := C05_oracle_accepts_model_runs_partial k tc h evs as sf rs hrun hdisc hrs
  apply hv
  have hne : sf.pcs ≠ [] := by
    intro hn; have := hs.pc.len; rw [hn] at this; simp at this; omega
  obtain ⟨p, hp⟩ := List.exists_mem_of_ne_nil _ hne
  have hclosed : sf.isOpen = false := (hs.pinv.dropped (hs.pinv.exited (hex p hp ▸ hp))).1
  have hpw : pendingWake sf = false := by
    cases hpw : pendingWake sf with
    | false => rfl
    | true =>
      have : Pc.parked true ∈ sf.pcs := by simpa [pendingWake] using hpw
      cases hex _ this
  simp [mayEnd, hpw, hclosed]

/-! ### non-vacuity -/

/-- real sharing: the owner pushes 4 jobs, worker 0 takes them, worker 1 finds nothing and sleeps, worker 0 evaluates a
    job, splits (waking 1, which takes the batch), an empty batch is pushed and popped, a `push`, probes -/
def exEvs1 : List Ev :=
  [.xpush [1, 2, 3, 4], .pop 0, .pop 1, .work 0 1 [5, 6], .split 0, .wake 1, .xpush [], .pop 1, .push 0 1, .pop 1,
    .shut, .closed]

example :
    (mkRun (init 2 2) exEvs1).map (·.1) =
      some [.dash, .pop (.got [1, 2, 3, 4]), .pop .park, .dash, .toks [5, 6, 1], .pop (.got [2, 3]), .dash,
        .pop (.got []), .dash, .pop (.got [5]), .bool false, .bool false]
    ∧ disciplined (init 2 2) false exEvs1 = true
    ∧ (mkRun (init 2 2) exEvs1).map (fun x => mayEnd x.2) = some true := by decide

/-- the last active worker closes the market; the sleeper is woken; the probe is logged; THEN the owner pushes and a
    worker splits on the closed market; both workers leave -/
def exEvs2 : List Ev := [.pop 0, .pop 1, .wake 0, .shut, .xpush [7], .split 1, .closed, .drop 0, .drop 1]
def exRs2 : List SExp :=
  [.atom "park", .list [], .list [], .atom "t", .atom "-", .list [], .atom "t", .atom "-", .atom "-"]

example :
    (mkRun (init 2 2) exEvs2).map (·.1) =
      some [.pop .park, .pop .empty, .pop .empty, .bool true, .dash, .toks [], .bool true, .dash, .dash]
    ∧ disciplined (init 2 2) false exEvs2 = true
    ∧ (mkRun (init 2 2) exEvs2).map (fun x => (mayEnd x.2, x.2.pcs)) = some (true, [.exited, .exited]) := by decide
example :
    RendersAll [.pop .park, .pop .empty, .pop .empty, .bool true, .dash, .toks [], .bool true, .dash, .dash] exRs2 :=
  ⟨rfl, rfl, rfl, rfl, trivial, rfl, rfl, trivial, trivial, trivial⟩
-- and the oracle evaluated on it, independently of the theorem
example : verdict 2 exEvs2 exRs2 = "ok" := by decide

/-! ### what is NOT true -/

/-- **Finding (machinery): without the harness discipline the oracle rejects a legal model run.**  One worker: its `pop`
    finds nothing, it is the last active worker, the market closes (`()`); the owner then pushes job 5 (dropped: the
    market is closed), and only then `is_shut_down()` is probed.  The model accepts this list, it may end there, the
    results render the model's answers — the oracle answers `closed-by-last-worker-with-jobs-on-the-market` (it took the
    `()` for an empty batch and job 5 for a job on an open market).  Same with the `closed` probe; and without any probe
    `oracleEnd` complains. -/
theorem C05_oracle_rejects_undisciplined_run :
    (mkRun (init 1 1) [.pop 0, .xpush [5], .shut]).map (fun x => (x.1, mayEnd x.2))
      = some ([.pop .empty, .dash, .bool true], true)
    ∧ RendersAll [.pop .empty, .dash, .bool true] [.list [], .atom "-", .atom "t"]
    ∧ disciplined (init 1 1) false [.pop 0, .xpush [5], .shut] = false
    ∧ verdict 1 [.pop 0, .xpush [5], .shut] [.list [], .atom "-", .atom "t"]
        = "closed-by-last-worker-with-jobs-on-the-market"
    ∧ verdict 1 [.pop 0, .xpush [5], .closed] [.list [], .atom "-", .atom "t"]
        = "is_closed-with-jobs-on-the-market"
    ∧ verdict 1 [.pop 0, .xpush [5]] [.list [], .atom "-"] = "jobs-left-on-an-open-market-after-drain"
    -- the live `oracle` answers the same
    ∧ verdictLive 1 [.pop 0, .xpush [5], .shut] [.list [], .atom "-", .atom "t"]
        = "closed-by-last-worker-with-jobs-on-the-market" :=
  ⟨by decide, ⟨rfl, trivial, rfl, trivial⟩, by decide, by decide, by decide, by decide, by decide⟩

/-- with the probe logged where the harness logs it, the same operations pass -/
example : disciplined (init 1 1) false [.pop 0, .shut, .xpush [5], .closed] = true
    ∧ verdict 1 [.pop 0, .shut, .xpush [5], .closed] [.list [], .atom "t", .atom "-", .atom "t"] = "ok" := by decide

/-- `tc ≤ k` is needed: a market created for two threads and driven by one worker lets that worker sleep with nobody
    left to wake it — a legal run of the machine (the C05 market theorems exclude it by the same hypothesis), rejected -/
theorem C05_oracle_rejects_tc_gt_k :
    (mkRun (init 1 2) [.pop 0]).map (·.1) = some [.pop .park]
    ∧ disciplined (init 1 2) false [.pop 0] = true
    ∧ verdict 1 [.pop 0] [.atom "park"] = "everybody-asleep:nobody-left-to-wake-them" := by decide

/-! ## 2. teeth -/

/-- **What `oracle` accepts satisfies the observable content of `C05_conservation` and `C05_no_lost_wakeup`.**
    `l` is the ledger of the observations (`ledger`: jobs handed to the market by `xpush` / `push` / `split`, jobs handed
    out by `pop` / `wake`, each worker's deque, who sleeps, who left — computed with no check).  If `oracle` accepts:

    1. (no job duplicated or invented) the jobs handed out, those the oracle still holds on the market and some rest
       `lost` (discarded by a stop) are — as multisets — exactly the jobs handed in;
    2. (no job lost) as long as no event told of a stop (`noClose`), `lost` is empty; if moreover `oracleEnd` has no
       complaint, every job handed in has been handed out exactly once;
    3. the deques the oracle attributes to the workers are those of the ledger;
    4. (nobody sleeps on work) no worker went to sleep while — no stop known — a job handed in was not yet handed out;
    5. (no lost wake-up) whenever somebody sleeps, a worker is awake (in range, not asleep, not gone) or a sleeper has
       been notified by a stop and must wake next (`mustWake`); at an accepted end (`oracleEnd = none`) a worker is
       awake. -/
theorem C05_oracle_sound (k : Nat) (evs : List Ev) (rs : List SExp) (of : Obs)
    (h : oracleR k { locs := List.replicate k [] } evs rs = .ok of) :
    let l := ledger { locs := List.replicate k [] } evs rs
    (∃ lost : List Nat, l.pushed.Perm (l.popped ++ of.market ++ lost))
    ∧ (noClose evs rs = true → l.pushed.Perm (l.popped ++ of.market))
    ∧ (noClose evs rs = true → oracleEnd of = none → l.pushed.Perm l.popped)
    ∧ of.locs = l.locs
    ∧ sleptOnJobs { locs := List.replicate k [] } false evs rs = false
    ∧ (l.parked ≠ [] → (∃ v, v < k ∧ v ∉ l.parked ∧ v ∉ l.exited) ∨ of.mustWake ≠ [])
    ∧ (oracleEnd of = none → l.parked ≠ [] → ∃ v, v < k ∧ v ∉ l.parked ∧ v ∉ l.exited) := by
  intro l
  obtain ⟨hl, hkn⟩ := led_run evs rs _ _ of (led_init k) h
  have hopen : noClose evs rs = true → l.pushed.Perm (l.popped ++ of.market) := by
    intro hn
    have hk : known of = false := hkn hn
    rw [List.perm_iff_count]; intro t
    rw [List.count_append]; exact hl.lt.consOpen hk t
  have haw : l.parked ≠ [] → (∃ v, v < k ∧ v ∉ l.parked ∧ v ∉ l.exited) ∨ of.mustWake ≠ [] := by
    intro hp
    have := hl.pa.aw (by rw [hl.parked]; exact hp)
    rw [hl.parked, hl.exited] at this; exact this
  refine ⟨?_, hopen, ?_, hl.lt.locs, led_slept evs rs _ false _ of (led_init k) (fun _ => rfl) h, haw, ?_⟩
  · obtain ⟨lost, hc⟩ := hl.lt.cons
    refine ⟨lost, ?_⟩
    rw [List.perm_iff_count]; intro t
    rw [List.count_append, List.count_append]; exact hc t
  · intro hn he
    have hk : known of = false := hkn hn
    have hm : of.market = [] := by
      unfold oracleEnd at he
      split at he
      · cases he
      split at he
      · cases he
      rename_i hne
      simp only [known, Bool.or_eq_false_iff] at hk
      simpa [hk.1, hk.2] using hne
    have := hopen hn
    rw [hm, List.append_nil] at this; exact this
  · intro he hp
    rcases haw hp with hv | hm
    · exact hv
    · unfold oracleEnd at he
      split at he
      · cases he
      rename_i hne
      exact absurd (by simpa using hne) hm

/-! ### non-vacuity of 2., and the checks at work -/

-- an accepted list, evaluated (`exEvs2` / `exRs2` above): the oracle's final state
example :
    (match oracleR 2 { locs := List.replicate 2 [] } exEvs2 exRs2 with
      | .ok o => o.parked == [] && o.exited == [1, 0] && o.dropSeen && o.mustWake == [] && o.locs == [[], []]
      | .error _ => false) = true := by decide
example :
    let l := ledger { locs := List.replicate 2 [] } exEvs2 exRs2
    l.pushed = [7] ∧ l.popped = [] ∧ l.parked = [] ∧ l.exited = [1, 0] := by decide

-- a stop-free accepted list: an empty batch pushed and taken, then worker 1 sleeps while worker 0 is awake
example :
    verdict 2 [.xpush [], .pop 0, .pop 1] [.atom "-", .list [], .atom "park"] = "ok"
    ∧ noClose [.xpush [], .pop 0, .pop 1] [.atom "-", .list [], .atom "park"] = true
    ∧ (ledger { locs := List.replicate 2 [] } [.xpush [], .pop 0, .pop 1] [.atom "-", .list [], .atom "park"]).parked
        = [1] := by decide

-- a worker that sleeps while jobs are on the market / the only worker going to sleep / a wake of a worker that does not
-- sleep / a worker acting while asleep: rejected
example : verdict 2 [.xpush [1, 2], .pop 0] [.atom "-", .atom "park"] = "worker-sleeps-while-jobs-are-on-the-market"
    ∧ verdict 2 [.xpush [], .pop 0] [.atom "-", .atom "park"] = "worker-sleeps-while-a-batch-is-on-the-market"
    ∧ verdict 2 [.pop 0, .pop 1] [.atom "park", .atom "park"] = "everybody-asleep:nobody-left-to-wake-them"
    ∧ verdict 2 [.wake 1] [.list []] = "wake-of-a-worker-that-was-not-asleep"
    ∧ verdict 2 [.pop 0, .pop 0] [.atom "park", .list []] = "harness:inactive-worker-acts"
    ∧ verdict 2 [.pop 0, .xdrop, .pop 1] [.atom "park", .atom "-", .list []] = "a-worker-asleep-at-a-stop-did-not-wake"
    ∧ verdict 2 [.pop 0, .xdrop] [.atom "park", .atom "-"] = "a-worker-asleep-at-a-stop-never-woke"
    ∧ verdict 2 [.xdrop, .shut] [.atom "-", .atom "f"] = "market-reopened-or-stop-not-visible" := by decide

/-! ## 3. the relaxed `.split` clause -/

/-- worker 0 takes `[1, 2]`, worker 1 sleeps, worker 0 splits, worker 1 is woken and takes what was shared -/
def exSplitEvs : List Ev := [.xpush [1, 2], .pop 0, .pop 1, .split 0, .wake 1]

/-- **A `split_and_push` that keeps the SUFFIX (shares from the front) is accepted by the relaxed oracle, one that invents
    or duplicates a job is rejected** (the live oracle before the replacement of its `.split` clause answered `split-reordered-or-invented-jobs` on the harmless one).  `rk` is the answer of
    `split` (the jobs kept); the token lists are given by what the results parse to (`String.toNat?` has no kernel
    reduction, so numerals cannot be `decide`d). -/
theorem C05_oracle_split_relaxed (r12 rk rw : SExp) (h12 : resToks? r12 = some [1, 2]) (hw : resToks? rw = some [1]) :
    (resToks? rk = some [2] →
      verdict 2 exSplitEvs [.atom "-", r12, .atom "park", rk, rw] = "ok")
    ∧ (resToks? rk = some [3] →
      verdict 2 exSplitEvs [.atom "-", r12, .atom "park", rk, rw] = "split-invented-or-duplicated-jobs")
    ∧ (resToks? rk = some [2, 2] →
      verdict 2 exSplitEvs [.atom "-", r12, .atom "park", rk, rw] = "split-invented-or-duplicated-jobs") := by
  obtain ⟨x12, rfl⟩ := resToks?_list h12
  obtain ⟨xw, rfl⟩ := resToks?_list hw
  refine ⟨?_, ?_, ?_⟩
  · intro hk
    obtain ⟨xk, rfl⟩ := resToks?_list hk
    simp [verdict, exSplitEvs, oracleR, h12, hw, hk, eraseAll?, awake, oracleEnd, List.range, List.range.loop]
  · intro hk
    obtain ⟨xk, rfl⟩ := resToks?_list hk
    simp [verdict, exSplitEvs, oracleR, h12, hk, eraseAll?, awake, List.range, List.range.loop]
  · intro hk
    obtain ⟨xk, rfl⟩ := resToks?_list hk
    simp [verdict, exSplitEvs, oracleR, h12, hk, eraseAll?, awake, List.range, List.range.loop]

-- the model's own split (keeps the PREFIX `[1]`, shares `[2]`) on the same operations: a legal, disciplined run
example :
    (mkRun (init 2 2) exSplitEvs).map (·.1) =
      some [.dash, .pop (.got [1, 2]), .pop .park, .toks [1], .pop (.got [2])]
    ∧ disciplined (init 2 2) false exSplitEvs = true := by decide

/-- the live `Drv.C05.oracle` IS the relaxed oracle (the `.split` clause of `Drv/C05.lean` has been replaced) -/
theorem C05_oracle_is_relaxed : @oracle = @oracleR := by
  funext k o evs rs
  induction evs generalizing o rs with
  | nil => cases rs <;> rfl
  | cons e es ih =>
    cases rs with
    | nil => rfl
    | cons r rs =>
      rw [oracle_cons]
      have : (fun o' => oracleR k o' es rs) = fun o' => oracle k o' es rs := funext fun o' => (ih o' rs).symm
      rw [this]
      cases e <;> simp only [oracle, obody] <;> rfl

/-- the driver command as `handle` parses it answers `ok` on every disciplined model run that may end: `k`, the events and
    the results arrive as S-expressions -/
theorem C05_oracle_handle_ok (k tc : Nat) (h : tc ≤ k) (evs : List Ev) (as : List Ans)
    (sf : MState) (ksx tcsx esx : SExp) (rs : List SExp)
    (hk : ksx.nat? = some k) (he : esx.listOf? evOf? = some evs)
    (hrun : mkRun (init k tc) evs = some (as, sf))
    (hdisc : disciplined (init k tc) false evs = true)
    (hrs : RendersAll as rs) (hend : mayEnd sf = true) :
    Drv.C05.handle "o-mk" [ksx, tcsx, esx, .list rs] = some "ok" := by
  rw [handle_omk rs hk he, verdictLive_eq C05_oracle_is_relaxed,
    (C05_oracle_accepts_model_runs_partial k tc h evs as sf rs hrun hdisc hrs).2 hend]


end SR.C05Oracle
