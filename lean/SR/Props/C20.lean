import SR.Proofs.VClock
import SR.Proofs.DenseNatMap
/-!
# C20 — vector clocks and dense maps obey their algebraic laws

Property theorems only. Model: `SR/Util/VClock.lean`, `SR/Util/DenseNatMap.lean` (transcriptions of
src/util/vector_clock.rs and src/util/densenatmap.rs). Clocks are `List Nat`; `a ≈ b` ("equal up
to trailing zeros") is `∀ i, get0 a i = get0 b i`.
-/
namespace SR.C20
open SR.VClock

/-- equality up to trailing zeros -/
def Equiv (a b : Clock) : Prop := ∀ i, get0 a i = get0 b i
/-- component-wise ≤ (the declarative partial order) -/
def Le (a b : Clock) : Prop := ∀ i, get0 a i ≤ get0 b i
/-- the order as the code decides it -/
def le (a b : Clock) : Prop := partialCmp a b = some .lt ∨ partialCmp a b = some .eq

/-- `==` decides equality up to trailing zeros. -/
theorem C20_eq_iff (a b : Clock) : veq a b = true ↔ Equiv a b := veq_iff a b

/-- `partial_cmp` (with its early-return loop) is the product order. -/
theorem C20_cmp_spec (a b : Clock) :
    (partialCmp a b = some .eq ↔ Equiv a b) ∧
    (partialCmp a b = some .lt ↔ Le a b ∧ ∃ i, get0 a i < get0 b i) ∧
    (partialCmp a b = some .gt ↔ Le b a ∧ ∃ i, get0 b i < get0 a i) ∧
    (partialCmp a b = none ↔ (∃ i, get0 a i < get0 b i) ∧ ∃ j, get0 b j < get0 a j) := by
  obtain ⟨h1, h2, h3, h4⟩ := cmpLoop_eq_spec a b (List.range (max a.length b.length))
  unfold partialCmp Equiv Le
  rw [h1, h2, h3, h4]
  rw [range_all a b (· = ·) rfl, range_all a b (· ≤ ·) (Nat.le_refl 0),
      range_ex a b (· < ·) (Nat.lt_irrefl 0)]
  have e1 := range_all b a (· ≤ ·) (Nat.le_refl 0)
  have e2 := range_ex b a (· < ·) (Nat.lt_irrefl 0)
  rw [Nat.max_comm] at e1 e2
  rw [e1, e2]
  exact ⟨Iff.rfl, Iff.rfl, Iff.rfl, Iff.rfl⟩

/-- `le` (= `partial_cmp ∈ {Less, Equal}`) is exactly component-wise ≤. -/
theorem C20_le_iff (a b : Clock) : le a b ↔ Le a b := by
  obtain ⟨h1, h2, _, _⟩ := C20_cmp_spec a b
  unfold le; rw [h1, h2]
  constructor
  · rintro (⟨h, _⟩ | h)
    · exact h
    · intro i; rw [h i]; exact Nat.le_refl _
  · intro h
    by_cases hex : ∃ i, get0 a i < get0 b i
    · exact Or.inl ⟨h, hex⟩
    · right; intro i
      have := h i
      have : ¬ get0 a i < get0 b i := fun hlt => hex ⟨i, hlt⟩
      omega

theorem C20_refl (a : Clock) : le a a := (C20_le_iff a a).2 (fun _ => Nat.le_refl _)

theorem C20_antisymm (a b : Clock) (h1 : le a b) (h2 : le b a) : Equiv a b := by
  intro i
  have := (C20_le_iff a b).1 h1 i
  have := (C20_le_iff b a).1 h2 i
  omega

theorem C20_trans (a b c : Clock) (h1 : le a b) (h2 : le b c) : le a c :=
  (C20_le_iff a c).2 (fun i => Nat.le_trans ((C20_le_iff a b).1 h1 i) ((C20_le_iff b c).1 h2 i))

/-- comparison respects equality up to trailing zeros (in both arguments). -/
theorem C20_cmp_congr (a a' b b' : Clock) (ha : Equiv a a') (hb : Equiv b b') :
    partialCmp a b = partialCmp a' b' := by
  obtain ⟨p1, p2, p3, p4⟩ := C20_cmp_spec a b
  obtain ⟨q1, q2, q3, q4⟩ := C20_cmp_spec a' b'
  unfold Equiv Le at *
  cases h : partialCmp a b with
  | none =>
    symm; rw [q4]; have := p4.1 h
    simpa [← ha _, ← hb _] using this
  | some o =>
    symm
    cases o with
    | lt => rw [q2]; have := p2.1 h; simpa [← ha _, ← hb _] using this
    | eq => rw [q1]; have := p1.1 h; simpa [← ha _, ← hb _] using this
    | gt => rw [q3]; have := p3.1 h; simpa [← ha _, ← hb _] using this

/-- `merge_max` is the least upper bound. -/
theorem C20_merge_lub (a b c : Clock) :
    le a (mergeMax a b) ∧ le b (mergeMax a b) ∧ (le a c → le b c → le (mergeMax a b) c) := by
  refine ⟨(C20_le_iff _ _).2 ?_, (C20_le_iff _ _).2 ?_, fun h1 h2 => (C20_le_iff _ _).2 ?_⟩
  · intro i; rw [get0_mergeMax]; omega
  · intro i; rw [get0_mergeMax]; omega
  · intro i; rw [get0_mergeMax]
    have := (C20_le_iff a c).1 h1 i
    have := (C20_le_iff b c).1 h2 i
    omega

/-- incrementing a component yields a strictly greater clock; the guard is where the `u32`
    addition overflows (the real code panics there when overflow checks are on). -/
theorem C20_incr (a : Clock) (i : Nat) (h : get0 a i < u32Max) :
    ∃ c, incremented a i = some c ∧ partialCmp a c = some .lt := by
  have hs := incremented_isSome h
  cases hc : incremented a i with
  | none => rw [hc] at hs; cases hs
  | some c =>
    refine ⟨c, rfl, ?_⟩
    rw [(C20_cmp_spec a c).2.1]
    constructor
    · intro j; rw [get0_incremented hc j]
      by_cases hji : j = i
      · subst hji; simp
      · simp [hji]
    · exact ⟨i, by rw [get0_incremented hc i]; simp⟩

theorem C20_incr_overflow (a : Clock) (i : Nat) (h : u32Max ≤ get0 a i) : incremented a i = none := by
  unfold incremented
  simp only
  have : get0 (if i ≥ a.length then a ++ List.replicate (1 + i - a.length) 0 else a) i = get0 a i := by
    split
    · exact get0_append_replicate _ _ _
    · rfl
  rw [this]; simp [h]

/-- equal clocks feed the hasher the same input, and only equal clocks do. -/
theorem C20_hash (a b : Clock) : hashInput a = hashInput b ↔ Equiv a b := by
  unfold hashInput Equiv
  constructor
  · intro h i; rw [← get0_trim a, ← get0_trim b, h]
  · exact trim_congr

/-! non-vacuity: concrete clocks -/
example : partialCmp [1, 2, 4] [1, 3, 0] = none := by decide
example : partialCmp [1, 2] [1, 2, 0, 0] = some .eq := by decide
example : le [1, 0, 2] [1, 5, 2, 0] := by left; decide
example : hashInput [0, 3, 0, 0] = [0, 3] := by decide
example : incremented [4294967295] 0 = none := by decide

/-! ## DenseNatMap -/
open SR.DNM

/-- construction from pairs succeeds exactly when the keys are a permutation of `0..len-1`
    ("rejects gaps" and duplicates) -/
theorem C20_dnm_gaps {V} (ps : List (Nat × V)) :
    (fromPairs ps).isSome ↔ (ps.map (·.1)).Perm (List.range ps.length) := fromPairs_isSome_iff ps

/-- a constructed map is a total map on `0..len` holding every pair -/
theorem C20_dnm_total {V} (ps : List (Nat × V)) (m : List V) (h : fromPairs ps = some m) :
    m.length = ps.length ∧ ∀ p ∈ ps, DNM.get m p.1 = some p.2 := fromPairs_total ps m h

/-- construction is independent of the order of the pairs -/
theorem C20_dnm_order {V} (ps ps' : List (Nat × V)) (h : ps.Perm ps') : fromPairs ps = fromPairs ps' :=
  fromPairs_perm ps ps' h

/-- `insert`: overwrite returns the previous value, insertion at `len` appends, beyond panics -/
theorem C20_dnm_insert {V} (m : List V) (k : Nat) (v : V) :
    (k > m.length → DNM.insert m k v = .panic) ∧
    (k = m.length → DNM.insert m k v = .ok (m ++ [v]) none) ∧
    (∀ h : k < m.length, ∃ m', DNM.insert m k v = .ok m' (some m[k]) ∧ m'.length = m.length ∧
        DNM.get m' k = some v ∧ ∀ j, j ≠ k → DNM.get m' j = DNM.get m j) := by
  refine ⟨fun h => by simp [DNM.insert, h], fun h => by simp [DNM.insert, h], fun h => ?_⟩
  refine ⟨m.set k v, ?_, by simp, ?_, ?_⟩
  · have h1 : ¬ k > m.length := by omega
    have h2 : ¬ k = m.length := by omega
    simp [DNM.insert, h1, h2, h]
  · simp [DNM.get, h]
  · intro j hj; simp [DNM.get, List.getElem?_set, Ne.symm hj]

/-- rewriting under a plan that permutes `0..len-1` moves each value to the rewritten key -/
theorem C20_dnm_rewrite {V} (pk : Nat → Nat) (pv : V → V) (m : List V)
    (hperm : ((List.range m.length).map pk).Perm (List.range m.length)) :
    ∃ m', rewrite pk pv m = some m' ∧ m'.length = m.length ∧
      ∀ k, k < m.length → DNM.get m' (pk k) = (DNM.get m k).map pv := rewrite_spec pk pv m hperm

example : fromPairs [(1, 20), (0, 10)] = some [10, 20] := by
  simp [fromPairs, sortByKey, List.mergeSort, List.MergeSort.Internal.splitInTwo, List.merge, List.range, List.range.loop]
example : fromPairs [(0, 10), (2, 20)] = none := by
  simp [fromPairs, sortByKey, List.mergeSort, List.MergeSort.Internal.splitInTwo, List.merge, List.range, List.range.loop]
example : fromPairs [(0, 10), (0, 20)] = none := by
  simp [fromPairs, sortByKey, List.mergeSort, List.MergeSort.Internal.splitInTwo, List.merge, List.range, List.range.loop]

end SR.C20
