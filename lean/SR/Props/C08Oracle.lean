import SR.Proofs.SemBruteComplete
import SR.Sem.Objects
/-!
# C08 / C14 — the brute-force consistency oracle is sound and complete

The run-time oracle of C08 / C14 (`SR/Sem/Brute.lean`, used by the driver commands `o-ser` in
`SR/Drv/Sem.lean`) judges every history independently of the testers: `bruteDfs rt spec s0 es want`
(pruned enumeration; `want = none`: is there any serialization, `want = some l`: is `l` one) and `brutePlain`
(every subset of the in-flight operations × every permutation, the definition tested literally; used as a
self-check of the former on histories with ≤ 6 operations). `rt = true` is the linearizability reading
(`IsLinearization`), `rt = false` the sequential-consistency reading (`IsSeqCons`); both are
`IsSerialization rt` of `SR/Sem/Spec.lean`.

Proved here, for every sequential specification (no `Lawful` hypothesis: the oracle only uses `invoke`),
every initial object, every event list, both readings: both enumerations are sound and complete, so the
oracle can neither call an inconsistent history consistent nor a consistent one inconsistent.

No size guard, no external fuel: `bruteDfs` runs `dfsPerm` with fuel = number of candidate operations, which
the completeness proof shows to be enough (`dfsPerm_complete`: any fuel `≥ rem.length`); `brutePlain` has no
fuel at all. (The driver applies the guard "≤ 6 operations" only to the *self-check* `brutePlain = bruteDfs`;
the verdict itself always comes from `bruteDfs`, so there is no "too big" answer and none is needed.)
-/
namespace SR.C08
open SR.Sem

variable {S Op Ret : Type} [DecidableEq Op] [DecidableEq Ret] (spec : SeqSpec S Op Ret) (s0 : S)

/-- soundness of both enumerations, both readings: whatever `bruteDfs` returns is a serialization order of
    a well-formed history (with exactly the wanted labels if labels were given), every witness `brutePlainAll`
    lists satisfies the definition, and `brutePlain` answers `true` only for a well-formed history that
    has a serialization -/
theorem C08_oracle_sound (rt : Bool) (es : List (Event Op Ret)) :
    (∀ want ids, bruteDfs rt spec s0 es want = some ids →
      WellFormed es ∧ ∃ l, IsSerializationOf rt spec s0 es ids l ∧ ∀ w, want = some w → w = l) ∧
    (∀ ids l, (ids, l) ∈ brutePlainAll rt spec s0 es → IsSerializationOf rt spec s0 es ids l) ∧
    (brutePlain rt spec s0 es = true → WellFormed es ∧ ∃ l, IsSerialization rt spec s0 es l) := by
  refine ⟨bruteDfs_sound rt spec s0 es, brutePlainAll_sound rt spec s0 es, ?_⟩
  intro h
  obtain ⟨hwf, ids, l, hl⟩ := (brutePlain_iff rt spec s0 es).1 h
  exact ⟨hwf, l, ids, hl⟩

/-- completeness of both enumerations, both readings: if a well-formed history has a serialization `l`
    (`IsLinearization` for `rt = true`, `IsSeqCons` for `rt = false`), then
    * `bruteDfs … none` returns an order `ids'` that satisfies the definition with some labels `l'`,
    * `bruteDfs … (some l)` returns an order that satisfies the definition with the labels `l`,
    * `brutePlain` answers `true`, and `brutePlainAll` lists every witness `(ids, l)`. -/
theorem C08_oracle_complete (rt : Bool) (es : List (Event Op Ret)) (hwf : WellFormed es) (l : List (Op × Ret))
    (h : IsSerialization rt spec s0 es l) :
    (∃ ids' l', bruteDfs rt spec s0 es none = some ids' ∧ IsSerializationOf rt spec s0 es ids' l') ∧
    (∃ ids', bruteDfs rt spec s0 es (some l) = some ids' ∧ IsSerializationOf rt spec s0 es ids' l) ∧
    brutePlain rt spec s0 es = true ∧
    (∀ ids, IsSerializationOf rt spec s0 es ids l → (ids, l) ∈ brutePlainAll rt spec s0 es) := by
  obtain ⟨ids, hl⟩ := h
  refine ⟨?_, ?_, (brutePlain_iff rt spec s0 es).2 ⟨hwf, ids, l, hl⟩,
    fun ids' h' => brutePlainAll_complete rt spec s0 es ids' l h'⟩
  · have hs := bruteDfs_complete rt spec s0 es hwf ids l hl none (Or.inl rfl)
    cases hd : bruteDfs rt spec s0 es none with
    | none => rw [hd] at hs; cases hs
    | some ids' =>
      obtain ⟨_, l', hl', _⟩ := bruteDfs_sound rt spec s0 es none ids' hd
      exact ⟨ids', l', rfl, hl'⟩
  · have hs := bruteDfs_complete rt spec s0 es hwf ids l hl (some l) (Or.inr rfl)
    cases hd : bruteDfs rt spec s0 es (some l) with
    | none => rw [hd] at hs; cases hs
    | some ids' =>
      obtain ⟨_, l', hl', hw⟩ := bruteDfs_sound rt spec s0 es (some l) ids' hd
      rw [hw l rfl]
      exact ⟨ids', rfl, hl'⟩

/-- the verdict of the oracle, either reading, without assuming well-formedness: `bruteDfs … none` answers
    iff the history is well-formed and has a serialization; `bruteDfs … (some l)` answers iff moreover `l` is
    one; `brutePlain` agrees with the former on every history (the driver's self-check
    `oracle-self-check-plain-vs-pruned` can never fire) -/
theorem C08_oracle_verdict (rt : Bool) (es : List (Event Op Ret)) :
    ((bruteDfs rt spec s0 es none).isSome = true ↔ WellFormed es ∧ ∃ l, IsSerialization rt spec s0 es l) ∧
    (∀ l, (bruteDfs rt spec s0 es (some l)).isSome = true ↔ WellFormed es ∧ IsSerialization rt spec s0 es l) ∧
    brutePlain rt spec s0 es = (bruteDfs rt spec s0 es none).isSome := by
  have h1 : (bruteDfs rt spec s0 es none).isSome = true ↔ WellFormed es ∧ ∃ l, IsSerialization rt spec s0 es l := by
    constructor
    · intro h
      cases hd : bruteDfs rt spec s0 es none with
      | none => rw [hd] at h; cases h
      | some ids =>
        obtain ⟨hwf, l, hl, _⟩ := bruteDfs_sound rt spec s0 es none ids hd
        exact ⟨hwf, l, ids, hl⟩
    · rintro ⟨hwf, l, ids, hl⟩
      exact bruteDfs_complete rt spec s0 es hwf ids l hl none (Or.inl rfl)
  refine ⟨h1, ?_, ?_⟩
  · intro l
    constructor
    · intro h
      cases hd : bruteDfs rt spec s0 es (some l) with
      | none => rw [hd] at h; cases h
      | some ids =>
        obtain ⟨hwf, l', hl, hw⟩ := bruteDfs_sound rt spec s0 es (some l) ids hd
        rw [hw l rfl]
        exact ⟨hwf, ids, hl⟩
    · rintro ⟨hwf, ids, hl⟩
      exact bruteDfs_complete rt spec s0 es hwf ids l hl (some l) (Or.inr rfl)
  · have h2 : brutePlain rt spec s0 es = true ↔ (bruteDfs rt spec s0 es none).isSome = true := by
      rw [h1, brutePlain_iff]
      exact and_congr_right fun _ => ⟨fun ⟨ids, l, h⟩ => ⟨l, ids, h⟩, fun ⟨l, ids, h⟩ => ⟨ids, l, h⟩⟩
    cases hb : brutePlain rt spec s0 es <;> cases hd : (bruteDfs rt spec s0 es none).isSome <;> simp_all

/-- linearizability reading: on well-formed histories the oracle (either enumeration) answers iff a
    linearization exists, and accepts given labels iff they are one -/
theorem C08_oracle_iff (es : List (Event Op Ret)) (hwf : WellFormed es) :
    ((bruteDfs true spec s0 es none).isSome = true ↔ ∃ l, IsLinearization spec s0 es l) ∧
    (brutePlain true spec s0 es = true ↔ ∃ l, IsLinearization spec s0 es l) ∧
    (∀ l, (bruteDfs true spec s0 es (some l)).isSome = true ↔ IsLinearization spec s0 es l) := by
  obtain ⟨h1, h2, h3⟩ := C08_oracle_verdict spec s0 true es
  refine ⟨?_, ?_, ?_⟩
  · rw [h1]; exact and_iff_right hwf
  · rw [h3, h1]; exact and_iff_right hwf
  · intro l; rw [h2 l]; exact and_iff_right hwf

/-- sequential-consistency reading: the same with `IsSeqCons` -/
theorem C14_oracle_iff (es : List (Event Op Ret)) (hwf : WellFormed es) :
    ((bruteDfs false spec s0 es none).isSome = true ↔ ∃ l, IsSeqCons spec s0 es l) ∧
    (brutePlain false spec s0 es = true ↔ ∃ l, IsSeqCons spec s0 es l) ∧
    (∀ l, (bruteDfs false spec s0 es (some l)).isSome = true ↔ IsSeqCons spec s0 es l) := by
  obtain ⟨h1, h2, h3⟩ := C08_oracle_verdict spec s0 false es
  refine ⟨?_, ?_, ?_⟩
  · rw [h1]; exact and_iff_right hwf
  · rw [h3, h1]; exact and_iff_right hwf
  · intro l; rw [h2 l]; exact and_iff_right hwf

/-- an ill-formed history is never judged consistent by the oracle, in either reading -/
theorem C08_oracle_illformed (rt : Bool) (es : List (Event Op Ret)) (h : ¬ WellFormed es)
    (want : Option (List (Op × Ret))) :
    bruteDfs rt spec s0 es want = none ∧ brutePlain rt spec s0 es = false := by
  constructor
  · cases hd : bruteDfs rt spec s0 es want with
    | none => rfl
    | some ids => exact absurd (bruteDfs_sound rt spec s0 es want ids hd).1 h
  · cases hb : brutePlain rt spec s0 es with
    | false => rfl
    | true => exact absurd ((brutePlain_iff rt spec s0 es).1 hb).1 h

/-- sequential-consistency reading of soundness / completeness, spelled out -/
theorem C14_oracle_sound (es : List (Event Op Ret)) (want : Option (List (Op × Ret))) (ids : List OpId)
    (h : bruteDfs false spec s0 es want = some ids) :
    WellFormed es ∧ ∃ l, IsSeqCons spec s0 es l ∧ IsSerializationOf false spec s0 es ids l ∧ ∀ w, want = some w → w = l := by
  obtain ⟨hwf, l, hl, hw⟩ := (C08_oracle_sound spec s0 false es).1 want ids h
  exact ⟨hwf, l, ⟨ids, hl⟩, hl, hw⟩

theorem C14_oracle_complete (es : List (Event Op Ret)) (hwf : WellFormed es) (l : List (Op × Ret))
    (h : IsSeqCons spec s0 es l) :
    (∃ ids' l', bruteDfs false spec s0 es none = some ids' ∧ IsSeqCons spec s0 es l' ∧
      IsSerializationOf false spec s0 es ids' l') ∧
    (∃ ids', bruteDfs false spec s0 es (some l) = some ids' ∧ IsSerializationOf false spec s0 es ids' l) ∧
    brutePlain false spec s0 es = true := by
  obtain ⟨⟨ids', l', h1, h1'⟩, h2, h3, _⟩ := C08_oracle_complete spec s0 false es hwf l h
  exact ⟨⟨ids', l', h1, ⟨ids', h1'⟩, h1'⟩, h2, h3⟩

/-! ## non-vacuity -/
section examples

/-- thread 0 reads 'B' = 66 from a register holding 'A' = 65 while thread 1's `Write('B')` is still in
    flight: the only serialization orders the in-flight write first -/
def o1 : List (Event (RegOp Nat) (RegRet Nat)) := [.inv 0 .read, .inv 1 (.write 66), .ret 0 (.readOk 66)]

example : wfB o1 = true := by decide
example : WellFormed o1 := (wfB_iff o1).1 (by decide)
example : completedIds o1 = [(0, 0)] ∧ inflightIds o1 = [(1, 0)] := by decide
/-- both enumerations find it: the in-flight write `(1, 0)` before the read `(0, 0)` -/
example : bruteDfs true (register Nat) 65 o1 none = some [(1, 0), (0, 0)] := by decide
example : brutePlainAll true (register Nat) 65 o1 =
    [([(1, 0), (0, 0)], [(.write 66, .writeOk), (.read, .readOk 66)])] := by decide
example : brutePlain true (register Nat) 65 o1 = true := by decide
example : bruteDfs true (register Nat) 65 o1 (some [(.write 66, .writeOk), (.read, .readOk 66)]) =
    some [(1, 0), (0, 0)] := by decide
/-- the other order, and the read alone, are rejected -/
example : bruteDfs true (register Nat) 65 o1 (some [(.read, .readOk 66), (.write 66, .writeOk)]) = none := by decide
example : bruteDfs true (register Nat) 65 o1 (some [(.read, .readOk 66)]) = none := by decide
/-- hence (soundness) the declarative definition holds of it, and the hypotheses of `C08_oracle_complete` are
    satisfiable -/
example : IsLinearization (register Nat) 65 o1 [(.write 66, .writeOk), (.read, .readOk 66)] :=
  ((C08_oracle_iff (register Nat) 65 o1 ((wfB_iff o1).1 (by decide))).2.2 _).1 (by decide)
example : ¬ IsLinearization (register Nat) 65 o1 [(.read, .readOk 66)] := by
  rw [← (C08_oracle_iff (register Nat) 65 o1 ((wfB_iff o1).1 (by decide))).2.2 _]; decide
/-- without the in-flight write the history is inconsistent in both readings -/
def o2 : List (Event (RegOp Nat) (RegRet Nat)) := [.inv 0 .read, .ret 0 (.readOk 66)]
example : ¬ ∃ l, IsSeqCons (register Nat) 65 o2 l := by
  rw [← (C14_oracle_iff (register Nat) 65 o2 ((wfB_iff o2).1 (by decide))).1]; decide

/-- the write completed before the read was invoked, yet the read returns the old value: sequentially
    consistent (read ordered first) but not linearizable — the two readings of the oracle differ -/
def o3 : List (Event (RegOp Nat) (RegRet Nat)) :=
  [.inv 1 (.write 66), .ret 1 .writeOk, .inv 0 .read, .ret 0 (.readOk 65)]
example : bruteDfs true (register Nat) 65 o3 none = none := by decide
example : bruteDfs false (register Nat) 65 o3 none = some [(0, 0), (1, 0)] := by decide
example : brutePlain true (register Nat) 65 o3 = false ∧ brutePlain false (register Nat) 65 o3 = true := by decide
example : (¬ ∃ l, IsLinearization (register Nat) 65 o3 l) ∧ ∃ l, IsSeqCons (register Nat) 65 o3 l := by
  have hwf : WellFormed o3 := (wfB_iff o3).1 (by decide)
  rw [← (C08_oracle_iff (register Nat) 65 o3 hwf).1, ← (C14_oracle_iff (register Nat) 65 o3 hwf).1]
  decide

/-- ill-formed (second invocation while one is in flight): never consistent -/
example : bruteDfs false (register Nat) 65
    ([.inv 9 (.write 66), .inv 9 (.write 67), .ret 9 .writeOk] : List (Event (RegOp Nat) (RegRet Nat))) none = none := by
  decide
end examples

end SR.C08
