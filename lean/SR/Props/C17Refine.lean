import SR.Proofs.RuntimeRefines
/-!
# C17 (bridge) — what runs under `spawn()` is a behaviour of the actor MODEL

Property theorems only.  Runtime: `SR/Runtime/System.lean` (`RSt`, `rstep`, `rrun`: `n` actor threads with the
loop of `Loop.lean`, the clock, the datagrams in flight as a multiset; steps `start / deliver / lose / fire / tick`,
commands executed as `on_command` of src/actor/spawn.rs does).  Model: `SR/Actor/Sys.lean` (`ActorSys`, `actions`,
`step` = `ActorModel::{actions, next_state}`), the SAME `sys : ActorSys σ η` (handler tables) on both sides.
Abstraction `abs sys : RSt σ η → St σ η`: actor states (a thread that has not started yet is seen in its `on_start`
state, with its `on_start` timers armed and its `on_start` sends in the network — as the model's initial state
has it), network = the datagrams in flight as the set of the duplicating network, timers = keys whose deadline is
before `never` (a cancelled timer is parked at `now + never`, not removed), nobody crashed, no pending choices.

Hypotheses, visible in every statement:
* `UdpModel sys`  the model is configured with the unordered DUPLICATING network, initially empty, and LOSSY;
* `NoRandom sys`  no handler emits `ChooseRandom` (the refinement is FALSE with it: `C17_refines_random_fails`);
* `RReach sys rs` the runtime state occurs: it is reached from `rinit sys` by enabled steps.
Assumptions built into the runtime semantics (see the header of `System.lean`): clock and deadlines stay below the
500-year horizon `never`; ids are the actor indices (codec bijection: `C17_id_addr / C17_addr_id`); serialisation
round-trips; a panicking handler or a `zeroWait` death only silences a thread; no datagrams from outside.

Everything quantifies over ALL handler tables, all `n`, all step lists (all interleavings, all timings, all random
picks, any loss / duplication / reordering).  Liveness is not covered (a refinement bounds what CAN happen).
-/
namespace SR.C17
open SR SR.Actor SR.RtSys

variable {σ η : Type}

/-- the initial runtime state (no thread started, nothing in flight) is abstracted to THE initial state of the model -/
theorem C17_refines_init (sys : ActorSys σ η) (hu : UdpModel sys) (hr : NoRandom sys) :
    Actor.init sys = some (abs sys (rinit sys)) := by
  rw [abs_rinit hu hr, init_eq_specInit]

/-- **Step refinement.**  Every step of a runtime state that occurs is, between the abstractions, a path of the
model made of a SUB-LIST of the actions the label stands for (`modelActs`): `start`, `tick` ↦ nothing (stutter);
`lose e` ↦ `Drop e` or nothing; `fire i (Timeout t)` ↦ `Timeout i t` or nothing; a duplicating `deliver e` ↦
`Deliver e` or nothing; a consuming `deliver e` ↦ `Deliver e` then `Drop e`, or one of them, or nothing.
Which one: `C17_refines_stutter`, `C17_refines_lose`, `C17_refines_deliver`, `C17_refines_consume`,
`C17_refines_fire`. -/
theorem C17_refines_step (sys : ActorSys σ η) (hu : UdpModel sys) (hr : NoRandom sys) {rs rs' : RSt σ η} {l : Lbl}
    (hreach : RReach sys rs) (h : rstep sys rs l = some rs') :
    ∃ as, as.Sublist (modelActs l) ∧ MPath sys (abs sys rs) as (abs sys rs') :=
  refines_step hu hr (inv_of_rreach hu hr hreach) h

/-- starting a thread and the passing of time are invisible: the abstraction does not change -/
theorem C17_refines_stutter (sys : ActorSys σ η) (hu : UdpModel sys) (hr : NoRandom sys) {rs rs' : RSt σ η}
    (hreach : RReach sys rs) :
    (∀ t, rstep sys rs (.tick t) = some rs' → abs sys rs' = abs sys rs) ∧
    (∀ i picks, rstep sys rs (.start i picks) = some rs' → abs sys rs' = abs sys rs) :=
  ⟨fun _ h => refines_tick h, fun _ _ h => refines_start hr (inv_of_rreach hu hr hreach) h⟩

/-- the loss of a datagram is the model's `Drop` — or nothing, when another copy is still in flight (or will be
sent again by a thread that has not started yet) -/
theorem C17_refines_lose (sys : ActorSys σ η) (hu : UdpModel sys) {rs rs' : RSt σ η} {e : Env}
    (h : rstep sys rs (.lose e) = some rs') :
    abs sys rs' = abs sys rs ∨ MStep sys (abs sys rs) (.drop e) (abs sys rs') :=
  refines_lose hu h

/-- **Delivery (the datagram stays in flight).**  The handler that runs is `on_msg` of the recipient on the
recipient's current state, and the step is EXACTLY the model's `Deliver` — unless the handler result is a no-op
(`is_no_op`: state left borrowed, no commands): the model has no such transition (the NO-OP rule of
`next_state` on unordered networks), and then the abstraction is unchanged. -/
theorem C17_refines_deliver (sys : ActorSys σ η) (hu : UdpModel sys) (hr : NoRandom sys) {rs rs' : RSt σ η}
    {e : Env} {picks : List Nat} (hreach : RReach sys rs) (h : rstep sys rs (.deliver e true picks) = some rs') :
    ∃ s ns cmds, rs.st e.dst = some s ∧ (sys.actor e.dst).msg e.dst s e.src e.msg = .ok ns cmds ∧
      (isNoOp ns cmds = true → abs sys rs' = abs sys rs ∧ Actor.step sys (abs sys rs) (.deliver e) = .ignored) ∧
      (isNoOp ns cmds = false → MStep sys (abs sys rs) (.deliver e) (abs sys rs')) := by
  obtain ⟨s, ns, cmds, hs, hh, h1, h2⟩ := refines_deliver_keep hu hr (inv_of_rreach hu hr hreach) h
  refine ⟨s, ns, cmds, hs, hh, fun hn => ⟨h1 hn, ?_⟩, h2⟩
  have hi : e.dst < sys.n := by
    simp only [rstep, hs] at h
    split at h
    · rename_i hg; exact hg.1
    · cases h
  simp [Actor.step, abs_actors_get sys rs hi, hs, abs_crashed_get sys rs hi, hh, hn, hu.net, Net.isOrdered]

/-- **Delivery that consumes the datagram** is a delivery that leaves it in flight followed by its loss (so:
`Deliver e` then `Drop e` in the model, each subject to the two theorems above). -/
theorem C17_refines_consume (sys : ActorSys σ η) {rs rs' : RSt σ η} {e : Env} {picks : List Nat}
    (h : rstep sys rs (.deliver e false picks) = some rs') :
    ∃ m, rstep sys rs (.deliver e true picks) = some m ∧ rstep sys m (.lose e) = some rs' :=
  deliver_consume h

/-- **Timers.**  Only `Timeout` interrupts exist and one fires only while the model has it set; the handler that
runs is `on_timeout` on the thread's current state, and the step is EXACTLY the model's `Timeout` — unless the
result is `is_no_op_with_timer` (state borrowed, the only command re-arms the same timer): the model ignores that
action, and the abstraction is unchanged (the timer is re-armed at a new deadline, still armed). -/
theorem C17_refines_fire (sys : ActorSys σ η) (hu : UdpModel sys) (hr : NoRandom sys) {rs rs' : RSt σ η}
    {i : Nat} {k : RtSys.Key} {picks : List Nat} (hreach : RReach sys rs)
    (h : rstep sys rs (.fire i k picks) = some rs') :
    ∃ t s ns cmds, k = .timeout t ∧ rs.st i = some s ∧ (sys.actor i).timeout i s t = .ok ns cmds ∧
      Action.timeout i t ∈ actions sys (abs sys rs) ∧
      (isNoOpWithTimer ns cmds t = true → abs sys rs' = abs sys rs) ∧
      (isNoOpWithTimer ns cmds t = false → MStep sys (abs sys rs) (.timeout i t) (abs sys rs')) := by
  have hinv := inv_of_rreach hu hr hreach
  obtain ⟨t, s, ns, cmds, hk, hs, hh, h1, h2⟩ := refines_fire hu hr hinv h
  refine ⟨t, s, ns, cmds, hk, hs, hh, ?_, h1, h2⟩
  subst hk
  simp only [rstep, hs] at h
  split at h
  · rename_i hg
    obtain ⟨en, hen, hk⟩ := List.any_eq_true.1 hg.2.1
    simp only [Bool.and_eq_true, decide_eq_true_eq] at hk
    exact enabled_timeout sys hu rs hg.1 hs
      (mem_armed.2 ⟨en.2, by rw [← hk.1]; exact hen, Nat.lt_trans hk.2 hinv.now⟩)
  · cases h

/-- **Every execution projects onto a path of the model**: from the model's initial state, through model
transitions only, to the abstraction of the runtime state reached; the actions taken are a sub-list of what the
labels stand for, in order. -/
theorem C17_refines_trace (sys : ActorSys σ η) (hu : UdpModel sys) (hr : NoRandom sys) {rs : RSt σ η}
    {ls : List Lbl} (h : rrun sys (rinit sys) ls = some rs) :
    ∃ s0 as, Actor.init sys = some s0 ∧ as.Sublist (ls.flatMap modelActs) ∧ MPath sys s0 as (abs sys rs) := by
  obtain ⟨_, as, hsub, hp⟩ := refines_path hu hr (inv_rinit sys) h
  exact ⟨_, as, C17_refines_init sys hu hr, hsub, hp⟩

/-- **Run refinement**: the abstraction of every runtime state that occurs is reachable in the model
(`Sys.Reach` of `ActorSys.toSys` without a boundary). -/
theorem C17_refines_run (sys : ActorSys σ η) (hu : UdpModel sys) (hr : NoRandom sys) {rs : RSt σ η}
    {ls : List Lbl} (h : rrun sys (rinit sys) ls = some rs) : (sys.toSys).Reach (abs sys rs) := by
  have h0 : (sys.toSys).Reach (abs sys (rinit sys)) := by rw [abs_rinit hu hr]; exact reach_specInit sys
  exact (refines_run hu hr (inv_rinit sys) h0 h).2

/-- **Invariants carry over**: what holds of every reachable state of the model holds of (the abstraction of)
every state the deployed system can be in. -/
theorem C17_refines_invariant (sys : ActorSys σ η) (hu : UdpModel sys) (hr : NoRandom sys) (P : St σ η → Prop)
    (hP : ∀ s, (sys.toSys).Reach s → P s) {rs : RSt σ η} (hreach : RReach sys rs) : P (abs sys rs) := by
  obtain ⟨ls, h⟩ := hreach
  exact hP _ (C17_refines_run sys hu hr h)

/-- the same for an `always` property as the checker evaluates it (`C02_always`: a completed check without a
discovery means the condition holds on all reachable states) -/
theorem C17_refines_always (sys : ActorSys σ η) (hu : UdpModel sys) (hr : NoRandom sys) (pr : Prop' (St σ η))
    (hverdict : ∀ t, (sys.toSys).Reach t → pr.cond t = true) {rs : RSt σ η} (hreach : RReach sys rs) :
    pr.cond (abs sys rs) = true :=
  C17_refines_invariant sys hu hr (fun s => pr.cond s = true) hverdict hreach

/-! ## the RANDOM fragment is not a refinement in the current code

`on_command` of spawn.rs (1) returns at once on `ChooseRandom(key, [])` where `process_commands` of the model REMOVES
the pending choice `key`; (2) ignores `key`: a second `ChooseRandom` under the same key does not replace the first,
where the model overwrites; (3) keys the interrupt by the chosen VALUE: two pending choices under different keys
with the same value collapse into one interrupt.  (1) and (2) let a deployed actor reach a local state that no
reachable state of the model has; the statements below are about the runtime's own actor state (`rs.st`), so
they do not depend on how an abstraction would treat pending choices. -/

/-- `on_random(r)`: the state becomes `r` -/
def rndActor (startCmds : List Cmd) : Actor Nat where
  start := fun _ => (0, startCmds)
  msg := fun _ _ _ _ => .ok none []
  timeout := fun _ _ _ => .ok none []
  random := fun _ _ r => .ok (some r) []

def rndSys (startCmds : List Cmd) : ActorSys Nat Unit where
  n := 1
  actor := fun _ => rndActor startCmds
  lossy := true
  maxCrashes := 0
  initNet := .dup [] none
  initHist := ()
  recordIn := fun _ _ => none
  recordOut := fun _ _ => none

/-- (1) a choice that was withdrawn with an empty list -/
def rndEmpty := rndSys [.chooseRandom 0 [5], .chooseRandom 0 []]
/-- (2) a choice that was replaced under the same key -/
def rndKey := rndSys [.chooseRandom 0 [5], .chooseRandom 0 [6]]
/-- (3) the same value pending under two keys -/
def rndTwo := rndSys [.chooseRandom 0 [5], .chooseRandom 1 [5]]

theorem C17_refines_random_fails :
    -- (1) the deployed actor is handed `on_random(5)` and reaches local state 5; the model stays in state 0
    (UdpModel rndEmpty ∧
      (∃ ls rs, rrun rndEmpty (rinit rndEmpty) ls = some rs ∧ rs.st 0 = some 5) ∧
      (∀ s, (rndEmpty.toSys).Reach s → s.actors = [0])) ∧
    -- (2) the deployed actor reaches local state 5; in the model the choice is 6 or nothing
    (UdpModel rndKey ∧
      (∃ ls rs, rrun rndKey (rinit rndKey) ls = some rs ∧ rs.st 0 = some 5) ∧
      (∀ s, (rndKey.toSys).Reach s → s.actors = [0] ∨ s.actors = [6])) ∧
    -- (3) the model calls `on_random(5)` twice (two pending choices); the runtime holds ONE interrupt after
    --     `on_start`, and none after it fired
    (UdpModel rndTwo ∧
      (mrun rndTwo (specInit rndTwo) [.selectRandom 0 0 5, .selectRandom 0 1 5]).isSome = true ∧
      ((rrun rndTwo (rinit rndTwo) [.start 0 []]).map (fun rs => (rs.ints 0).length)) = some 1 ∧
      ((rrun rndTwo (rinit rndTwo) [.start 0 [], .tick 1, .fire 0 (.random 5) []]).map (fun rs => (rs.st 0, rs.ints 0)))
        = some (some 5, [])) := by
  refine ⟨⟨⟨rfl, rfl⟩, ⟨[.start 0 [], .tick 1, .fire 0 (.random 5) []], ?_⟩, ?_⟩,
    ⟨⟨rfl, rfl⟩, ⟨[.start 0 [], .tick 1, .fire 0 (.random 5) []], ?_⟩, ?_⟩, ⟨rfl, rfl⟩, by decide, by decide, by decide⟩
  · exact ⟨(rrun rndEmpty (rinit rndEmpty) [.start 0 [], .tick 1, .fire 0 (.random 5) []]).get (by decide), by simp, by decide⟩
  · intro s hs
    have := reach_among (sys := rndEmpty) [specInit rndEmpty] (by decide) (by decide) hs
    simp only [List.mem_singleton] at this
    subst this; decide
  · exact ⟨(rrun rndKey (rinit rndKey) [.start 0 [], .tick 1, .fire 0 (.random 5) []]).get (by decide), by simp, by decide⟩
  · intro s hs
    have := reach_among (sys := rndKey)
      [specInit rndKey, { specInit rndKey with actors := [6], random := [[]] }] (by decide) (by decide) hs
    simp only [List.mem_cons, List.not_mem_nil, or_false] at this
    rcases this with rfl | rfl
    · left; decide
    · right; rfl

/-! ## the hypotheses are satisfiable: a two-actor ping-pong with a retransmission timer

Actor 0 sends `ping k` (`k` = its state) to actor 1, arms timer 7 and re-sends on time-out; on the matching
`pong k` it moves to `k + 1`, cancels and re-arms the timer and sends the next ping; anything else is a no-op.
Actor 1 answers a ping it has not seen with a pong and remembers it; a ping it has seen is a no-op.
The history counts / lists the envelopes received and sent. -/

def pinger : Actor Nat where
  start := fun _ => (0, [.send 1 0, .setTimer 7])
  msg := fun _ s _ m =>
    if m = s then .ok (some (s + 1)) [.send 1 (s + 1), .cancelTimer 7, .setTimer 7] else .ok none []
  timeout := fun _ s _ => .ok none [.send 1 s, .setTimer 7]
  random := fun _ _ _ => .ok none []

def ponger : Actor Nat where
  start := fun _ => (0, [])
  msg := fun _ s src m => if s < m + 1 then .ok (some (m + 1)) [.send src m] else .ok none []
  timeout := fun _ _ _ => .ok none []
  random := fun _ _ _ => .ok none []

def pingPong : ActorSys Nat (List Env) where
  n := 2
  actor := fun i => if i = 0 then pinger else ponger
  lossy := true
  maxCrashes := 0
  initNet := .dup [] none
  initHist := []
  recordIn := fun h e => some (h ++ [e])
  recordOut := fun h e => some (h ++ [e])

theorem C17_refines_ex_udp : UdpModel pingPong := ⟨rfl, rfl⟩

theorem C17_refines_ex_noRandom : NoRandom pingPong := by
  constructor
  · intro i c hc
    by_cases hi : i = 0
    · simp only [pingPong, hi, if_true, pinger] at hc; revert c; decide
    · simp [pingPong, hi, ponger] at hc
  · intro i s src m ns cmds h c hc
    by_cases hi : i = 0
    · simp only [pingPong, hi, if_true, pinger] at h
      split at h <;> cases h
      · revert c; simp [isChoose]
      · cases hc
    · simp only [pingPong, hi, if_false, ponger] at h
      split at h <;> cases h
      · revert c; simp [isChoose]
      · cases hc
  · intro i s t ns cmds h c hc
    by_cases hi : i = 0
    · simp only [pingPong, hi, if_true, pinger] at h
      cases h; revert c; simp [isChoose]
    · simp only [pingPong, hi, if_false, ponger] at h
      cases h; cases hc

/-- a run of 10 steps: the pinger starts, its first ping is lost (the ponger's socket is not bound yet), the ponger
starts late, time passes, the timer fires and the ping is re-sent, the ping is delivered (and stays in flight), the
pong is delivered and consumed, the duplicate ping arrives (no-op) and is consumed, a second time-out happens, the
clock ticks. -/
def ppRun : List Lbl :=
  [ .start 0 [0, 100], .lose ⟨0, 1, 0⟩, .start 1 [], .tick 150, .fire 0 (.timeout 7) [0, 100],
    .deliver ⟨0, 1, 0⟩ true [], .deliver ⟨1, 0, 0⟩ false [0, 0, 200], .deliver ⟨0, 1, 0⟩ false [],
    .tick 400, .fire 0 (.timeout 7) [0, 50] ]

/-- its model path: 7 actions (`start`, `tick` are stutters; the duplicate ping is a no-op, only its `Drop` shows) -/
def ppActs : List Action :=
  [ .drop ⟨0, 1, 0⟩, .timeout 0 7, .deliver ⟨0, 1, 0⟩, .deliver ⟨1, 0, 0⟩, .drop ⟨1, 0, 0⟩, .drop ⟨0, 1, 0⟩,
    .timeout 0 7 ]

-- the run is enabled, and the model path leads from the model's initial state to the abstraction of its end
example : (rrun pingPong (rinit pingPong) ppRun).isSome = true := by decide
example : Actor.init pingPong = some (abs pingPong (rinit pingPong)) := by decide
example : (rrun pingPong (rinit pingPong) ppRun).map (abs pingPong) = mrun pingPong (specInit pingPong) ppActs := by
  decide
example : ppActs.Sublist (ppRun.flatMap modelActs) := by decide
-- the end state: pinger in state 1 with its timer armed, `ping 1` in flight twice (one set element)
example : (rrun pingPong (rinit pingPong) ppRun).map (fun rs => (abs pingPong rs).actors) = some [1, 1] := by decide
example : (rrun pingPong (rinit pingPong) ppRun).map (fun rs => (rs.flight, (abs pingPong rs).net, (abs pingPong rs).timers))
    = some ([⟨0, 1, 1⟩, ⟨0, 1, 1⟩], .dup [⟨0, 1, 1⟩] (some ⟨1, 0, 0⟩), [[7], []]) := by decide
-- a timer cannot fire before its deadline, nor after a cancel without re-arming; an unstarted thread receives nothing
example : (rrun pingPong (rinit pingPong) [.start 0 [0, 100], .tick 99, .fire 0 (.timeout 7) []]).isSome = false := by
  decide
-- nor AT its deadline (the code then takes the receive branch with a zero read timeout: `Loop.Ev.zeroWait`), only after
example : (rrun pingPong (rinit pingPong) [.start 0 [0, 100], .tick 100, .fire 0 (.timeout 7) []]).isSome = false ∧
    (rrun pingPong (rinit pingPong) [.start 0 [0, 100], .tick 101, .fire 0 (.timeout 7) []]).isSome = true := by
  decide
example : (rrun pingPong (rinit pingPong) [.start 0 [0, 100], .deliver ⟨0, 1, 0⟩ true []]).isSome = false := by decide
-- the theorems apply to it
example : (pingPong.toSys).Reach (abs pingPong ((rrun pingPong (rinit pingPong) ppRun).get (by decide))) :=
  C17_refines_run pingPong C17_refines_ex_udp C17_refines_ex_noRandom (Option.some_get _).symm

end SR.C17
