/-! # C11 — property theorems (stub: nothing stated yet) -/
namespace SR.C11
end SR.C11
