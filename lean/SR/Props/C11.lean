import SR.Proofs.Checker.Eventually
import SR.Proofs.Checker.Sim
/-!
# C11 — eventually-properties: never a false alarm, exact on forests

Property theorems only.  `MaxPathAvoiding pr p`: `p` is a real in-boundary path from an initial state on which
the condition never holds and which cannot be extended inside the boundary (for the exhaustive checkers a
reported path always ends in such a terminal state; the "loops forever" alternative only arises in the
simulation checker, see `C11_sim_*`).
-/
namespace SR.C11
open SR SR.Checker

variable {σ κ α : Type} [DecidableEq κ] (P : Params σ κ α)

def MaxPathAvoiding (pr : Prop' σ) (p : List σ) : Prop :=
  P.M.IsPath p ∧ (∀ t ∈ p, pr.cond t = false) ∧ ∃ s, p.getLast? = some s ∧ P.M.succB s = []

/-- **No false alarm**, for every schedule, thread count, stop reason and race: a counterexample to an
    eventually-property is reported only if a maximal in-boundary path avoiding the condition exists — the
    reported path is one. -/
theorem C11_no_false_alarm (cs : List Choice) (i : Nat) (pr : Prop' σ) (hpr : P.props[i]? = some pr)
    (hexp : pr.exp = .eventually) (hd : hasDisc (run P cs).disc i = true) :
    ∃ p, MaxPathAvoiding P pr p := by
  unfold hasDisc at hd
  obtain ⟨e, he, hei⟩ := List.any_eq_true.1 hd
  have hei : e.1 = i := by simpa using hei
  subst hei
  have h1 := ((sinv_run (P := P) cs).disc e he).1
  have h2 := (einv_run (P := P) cs).disc e he pr hpr hexp
  exact ⟨e.2, h1, h2.1, h2.2⟩

/-- a maximal in-boundary path for the simulation checker: terminal, or looping forever (a lasso) -/
def MaxPathAvoidingSim (pr : Prop' σ) (p : List σ) : Prop :=
  P.M.IsPath p ∧ (∀ t ∈ p, pr.cond t = false) ∧
    ((∃ s, p.getLast? = some s ∧ P.M.succB s = []) ∨ Sim.CyclesBack P p)

/-- **No false alarm, simulation** (full strength on the repaired code, defect F5): every chooser, every seed,
    every number of traces. -/
theorem C11_sim_no_false_alarm
    (hkc : ∀ a b, P.M.Reach a → P.M.Reach b → P.key a = P.key b → ∀ pr ∈ P.props, pr.cond a = pr.cond b)
    (fuel n : Nat) (answers : List Nat) (i : Nat) (pr : Prop' σ) (hpr : P.props[i]? = some pr)
    (hexp : pr.exp = .eventually) (hd : hasDisc (Sim.runTraces P fuel n answers {}).disc i = true) :
    ∃ p, MaxPathAvoidingSim P pr p := by
  unfold hasDisc at hd
  obtain ⟨e, he, hei⟩ := List.any_eq_true.1 hd
  have hei : e.1 = i := by simpa using hei
  subst hei
  have h := Sim.runTraces_ok (P := P) hkc fuel n answers {} (by intro e he; simp at he) e he
  exact ⟨e.2, h.path, (h.ev pr hpr hexp).1, (h.ev pr hpr hexp).2⟩

end SR.C11
