import SR.Proofs.Checker.Eventually
import SR.Proofs.Checker.Sim
import SR.Proofs.Checker.Forest
import SR.Props.C02
import SR.Checker.Sched
import SR.Checker.Graph
/-!
# C11 — eventually-properties: never a false alarm, exact on forests

Property theorems only.  `MaxPathAvoiding pr p`: `p` is a real in-boundary path from an initial state on which
the condition never holds and which cannot be extended inside the boundary (for the exhaustive checkers a
reported path always ends in such a terminal state; the "loops forever" alternative only arises in the
simulation checker, see `C11_sim_*`).
-/
namespace SR.C11
open SR SR.Checker

variable {σ κ α : Type} [DecidableEq κ] (P : Params σ κ α)

def MaxPathAvoiding (pr : Prop' σ) (p : List σ) : Prop :=
  P.M.IsPath p ∧ (∀ t ∈ p, pr.cond t = false) ∧ ∃ s, p.getLast? = some s ∧ P.M.succB s = []

/-- **No false alarm**, for every schedule, thread count, stop reason and race: a counterexample to an
    eventually-property is reported only if a maximal in-boundary path avoiding the condition exists — the
    reported path is one. -/
theorem C11_no_false_alarm (cs : List Choice) (i : Nat) (pr : Prop' σ) (hpr : P.props[i]? = some pr)
    (hexp : pr.exp = .eventually) (hd : hasDisc (run P cs).disc i = true) :
    ∃ p, MaxPathAvoiding P pr p := by
  unfold hasDisc at hd
  obtain ⟨e, he, hei⟩ := List.any_eq_true.1 hd
  have hei : e.1 = i := by simpa using hei
  subst hei
  have h1 := ((sinv_run (P := P) cs).disc e he).1
  have h2 := (einv_run (P := P) cs).disc e he pr hpr hexp
  exact ⟨e.2, h1, h2.1, h2.2⟩

/-- **Exactness on forests.**  If every reachable state has exactly one in-boundary path from an initial state
    (`Forest`), the state identity is injective on reachable states, and the run completed (joined; nothing was
    dropped, or every property has a discovery), then a counterexample for an eventually-property is reported
    exactly when some maximal in-boundary path never satisfies the condition.  Every schedule, any thread count. -/
theorem C11_forest_exact (hF : Forest P.M)
    (hinj : ∀ a b, P.M.Reach a → P.M.Reach b → P.key a = P.key b → a = b)
    (cs : List Choice) (hc : C02.Completed P (run P cs))
    (i : Nat) (pr : Prop' σ) (hpr : P.props[i]? = some pr) (hexp : pr.exp = .eventually) :
    hasDisc (run P cs).disc i = true ↔ ∃ p, MaxPathAvoiding P pr p := by
  constructor
  · exact C11_no_false_alarm P cs i pr hpr hexp
  · rintro ⟨p, hp, hav, t, hl, hterm⟩
    rcases hc.2 with he | hall
    · have htr : P.M.Reach t := Sys.reach_last_of_isPath hp hl
      obtain ⟨u, hu, rfl⟩ := complete_of_quiescent (P := P) Eq hinj (fun _ _ _ h1 h2 => h1.trans h2)
        (fun a b hab a' ha' => ⟨a', hab ▸ ha', rfl⟩) cs hc.1 he t htr
      exact (finv_run (P := P) hpr hexp hF cs).done _ hu p hp hl hav hterm
    · exact (C02.allDiscovered_iff P _).1 hall i (List.getElem?_eq_some_iff.1 hpr).1

/-- the incompleteness off forests that the source documents (FIXME in bfs.rs/dfs.rs) is real: at a join the
    second path's bits are lost.  `0→{1,2}, 1→3, 2→3`, "eventually (= 1)": the path `[0,2,3]` avoids the condition
    and is maximal, but BFS reaches 3 first through 1 and reports nothing. -/
def joinGraph : Graph :=
  { n := 4, init := [0], adj := [[some 1, some 2], [some 3], [some 3], []], bnd := [true, true, true, true] }
def joinParams : Params Nat Nat Nat :=
  { M := joinGraph.toSys, props := [{ exp := .eventually, cond := fun s => s == 1 }],
    key := id, cfg := {}, finishMatches := fun d => d.length == 1 }
example : (runSingle joinParams .bfs 200).disc = [] ∧ (runSingle joinParams .bfs 200).early = false := by decide

/-- a maximal in-boundary path for the simulation checker: terminal, or looping forever (a lasso) -/
def MaxPathAvoidingSim (pr : Prop' σ) (p : List σ) : Prop :=
  P.M.IsPath p ∧ (∀ t ∈ p, pr.cond t = false) ∧
    ((∃ s, p.getLast? = some s ∧ P.M.succB s = []) ∨ Sim.CyclesBack P p)

/-- **No false alarm, simulation** (full strength on the repaired code, defect F5): every chooser, every seed,
    every number of traces. -/
theorem C11_sim_no_false_alarm
    (hkc : ∀ a b, P.M.Reach a → P.M.Reach b → P.key a = P.key b → ∀ pr ∈ P.props, pr.cond a = pr.cond b)
    (fuel n : Nat) (answers : List Nat) (i : Nat) (pr : Prop' σ) (hpr : P.props[i]? = some pr)
    (hexp : pr.exp = .eventually) (hd : hasDisc (Sim.runTraces P fuel n answers {}).disc i = true) :
    ∃ p, MaxPathAvoidingSim P pr p := by
  unfold hasDisc at hd
  obtain ⟨e, he, hei⟩ := List.any_eq_true.1 hd
  have hei : e.1 = i := by simpa using hei
  subst hei
  have h := Sim.runTraces_ok (P := P) hkc fuel n answers {} (by intro e he; simp at he) e he
  exact ⟨e.2, h.path, (h.ev pr hpr hexp).1, (h.ev pr hpr hexp).2⟩

/-- **No false alarm, multi-threaded simulation**: whatever the colleagues discover meanwhile (`orc`), wherever the
    worker's traces are cut off (`fuels`), an eventually-counterexample inserted by a worker is a maximal path that never
    satisfies the condition. -/
theorem C11_sim_worker_no_false_alarm
    (hkc : ∀ a b, P.M.Reach a → P.M.Reach b → P.key a = P.key b → ∀ pr ∈ P.props, pr.cond a = pr.cond b)
    (orc : Nat → Nat → Nat → Bool) (fuels : List Nat) (answers : List Nat) (i : Nat) (pr : Prop' σ)
    (hpr : P.props[i]? = some pr) (hexp : pr.exp = .eventually)
    (hd : hasDisc (Sim.tracesO P orc 0 fuels answers {}).disc i = true) :
    ∃ p, MaxPathAvoidingSim P pr p := by
  unfold hasDisc at hd
  obtain ⟨e, he, hei⟩ := List.any_eq_true.1 hd
  have hei : e.1 = i := by simpa using hei
  subst hei
  have h := Sim.tracesO_ok (P := P) hkc orc fuels 0 answers {} (by intro e he; simp at he) e he
  exact ⟨e.2, h.path, (h.ev pr hpr hexp).1, (h.ev pr hpr hexp).2⟩

end SR.C11
