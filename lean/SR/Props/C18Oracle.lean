import SR.Proofs.MirrorOracle
import SR.Props.C18
/-!
# C18 oracle `o-c18` — adequacy of `mirrorClient` / `oracleMirror` (SR/Drv/C18.lean)

Property theorems only; definitions and lemmas are in `SR/Proofs/MirrorOracle.lean`.

* `cev`/`lev`: the oracle's events `LogEv` and the model's `CEv` are the same data.
* `clog c log`: the events of client `c` (what `oracleMirror` hands to `mirrorClient`);
  `clientsOf log`: the clients with an event (`C18_oracle_clients`).
* the protocol `Alt wo none evs` (per client): sends and accepted messages alternate starting with a send,
  every sent message is a `Put`/`Get`, every accepted message is a reply of the flavour (`IsReply wo`:
  `PutOk`, `GetOk`, and `PutFail` iff `wo`) with the request id of the request sent just before — i.e.
  at most one outstanding request, replies accepted only for the outstanding request
  (`C18_oracle_protocol_rounds`: = a sequence of (request, reply) rounds + an optional unanswered request).
  It holds for every client on every log of the harness system `Step` (`C18_oracle_protocol_reachable`),
  the system the theorems `C18_wellformed`, `C18_one_outstanding`, `C18_fresh_ids`, `C18_mirror` are about.
* `Render I wo`: wire rendering of operations/returns compatible with the oracle's `opSxOf`/`retSxOf`;
  instances `renderRegLin`, `renderRegSC` (`wo = false`, `regCodec`), `renderWoLin`, `renderWoSC`
  (`wo = true`, `woCodec`).

FINDING (fixed in the driver): `oracleMirror` used to compare the tester content with the mirror by
`d == done && p == pend` on `SExp`; `SExp` only derives `BEq`, and for this nested inductive the derived `==`
is an opaque constant (`#print SR.instBEqSExp.beq`): no property of it is provable (not even by evaluation).
The driver now uses `sxEqv` (SR/SExpEq.lean, the decidable equality `sxDecEq`) and additionally refuses a
`content` that lists a thread twice; `oracleMirrorD` (= `oracleMirrorG sxEqv`, the oracle written as an error
list) is the driver's `oracleMirror` by `rfl` (`C18_oracle_verdict_driver`), and the verdict theorems are
stated about `oracleMirror` itself.
-/
namespace SR.C18Oracle
open SR SR.Sem SR.Sem.RC SR.Sem.AMap SR.Drv.Sem SR.Drv.C18

section generic
variable {H Op Ret : Type} {I : Iface H Op Ret} {wo : Bool}

/-! ## 1. on a protocol-conforming log `mirrorClient` yields the rendering of `RC.mirror`, and only there -/
theorem C18_oracle_mirror_agrees (R : Render I wo) (c : Nat) (log : List LogEv) (r : List SExp × Option SExp) :
    mirrorClient wo (clog c log) [] none = .ok r ↔
      Alt wo none (clog c log) ∧ r = R.content (mirror I wo c (log.map cev)) := by
  constructor
  · intro h
    have ha := (mc_ok_iff wo (clog c log) none pendOk_none []).1 ⟨r, h⟩
    rw [mc_agrees R c log ha] at h
    cases h
    exact ⟨ha, rfl⟩
  · rintro ⟨ha, rfl⟩
    exact mc_agrees R c log ha

end generic

/-- the same, spelled out for the two register kinds (both testers each): `Register` with `wo = false`
    and the wire format of `regCodec`, `WORegister` with `wo = true` and the wire format of `woCodec` -/
theorem C18_oracle_mirror_agrees_kinds (c : Nat) (log : List LogEv) :
    (Alt false none (clog c log) →
      mirrorClient false (clog c log) [] none =
        .ok ((mirror regLin false c (log.map cev)).1.map (fun x =>
              SExp.list [(regCodec charShow 63).opSx x.1, (regCodec charShow 63).retSx x.2]),
             (mirror regLin false c (log.map cev)).2.map (regCodec charShow 63).opSx) ∧
      mirrorClient false (clog c log) [] none =
        .ok ((mirror regSC false c (log.map cev)).1.map (fun x =>
              SExp.list [(regCodec charShow 63).opSx x.1, (regCodec charShow 63).retSx x.2]),
             (mirror regSC false c (log.map cev)).2.map (regCodec charShow 63).opSx)) ∧
    (Alt true none (clog c log) →
      mirrorClient true (clog c log) [] none =
        .ok ((mirror woLin true c (log.map cev)).1.map (fun x =>
              SExp.list [(woCodec charShow none).opSx x.1, (woCodec charShow none).retSx x.2]),
             (mirror woLin true c (log.map cev)).2.map (woCodec charShow none).opSx) ∧
      mirrorClient true (clog c log) [] none =
        .ok ((mirror woSC true c (log.map cev)).1.map (fun x =>
              SExp.list [(woCodec charShow none).opSx x.1, (woCodec charShow none).retSx x.2]),
             (mirror woSC true c (log.map cev)).2.map (woCodec charShow none).opSx)) :=
  ⟨fun h => ⟨mc_agrees renderRegLin c log h, mc_agrees renderRegSC c log h⟩,
   fun h => ⟨mc_agrees renderWoLin c log h, mc_agrees renderWoSC c log h⟩⟩

/-- the protocol, declaratively: complete rounds (request sent, reply of the flavour with the same request
    id accepted) followed by at most one unanswered request -/
theorem C18_oracle_protocol_rounds (wo : Bool) (evs : List LogEv) :
    Alt wo none evs ↔
      ∃ (rounds : List ((Nat × RMsg) × (Nat × RMsg))) (last : Option (Nat × RMsg)),
        evs = rounds.flatMap (fun x => [LogEv.send x.1.1 x.1.2, LogEv.acc x.2.1 x.2.2]) ++
                last.toList.map (fun x => LogEv.send x.1 x.2) ∧
        (∀ x ∈ rounds, IsRequest x.1.2 ∧ IsReply wo x.2.2 ∧ RC.ridOf x.1.2 = RC.ridOf x.2.2) ∧
        (∀ x, last = some x → IsRequest x.2) :=
  alt_iff_rounds wo evs

/-! ## 2. `mirrorClient` rejects exactly the logs that violate the protocol, naming the first violation -/
theorem C18_oracle_mirror_rejects (wo : Bool) (evs : List LogEv) :
    (∃ err, mirrorClient wo evs [] none = .error err) ↔ ¬ Alt wo none evs := by
  rw [← mc_ok_iff wo evs none pendOk_none []]
  cases mirrorClient wo evs [] none <;> simp

/-- which violation: the log splits into a conforming prefix `pre`, the offending event `e` and a rest;
    with `pendOf pre` the request outstanding after `pre` (its last event if that is a send) the error is
    * `second-request-while-one-outstanding`: `e` is a send while a request is outstanding;
    * `client-sent-non-request`: none outstanding, `e` sends something that is no `Put`/`Get`;
    * `reply-accepted-without-outstanding-request`: `e` is an accept while none is outstanding;
    * `accepted-reply-for-other-request-id`: `e` accepts `Internal` or a message with another request id;
    * `accepted-non-reply`: `e` accepts a message with the outstanding id that is no reply of the flavour
      (a `Put`/`Get`, or `PutFail` when `wo = false`). -/
theorem C18_oracle_mirror_rejects_which (wo : Bool) (evs : List LogEv) (err : String) :
    mirrorClient wo evs [] none = .error err ↔
      ∃ pre e post, evs = pre ++ e :: post ∧ Alt wo none pre ∧ Viol wo (pendOf pre) e err := by
  rw [mc_error_iff wo evs none pendOk_none [] err]
  simp only [pendAfter_none_eq]

/-- the five error texts and their conditions, literally -/
theorem C18_oracle_violations (wo : Bool) (pend : Option RMsg) (e : LogEv) (err : String) :
    Viol wo pend e err ↔
      (∃ c m p, pend = some p ∧ e = .send c m ∧ err = "second-request-while-one-outstanding") ∨
      (∃ c m, pend = none ∧ e = .send c m ∧ ¬ IsRequest m ∧ err = "client-sent-non-request") ∨
      (∃ c m, pend = none ∧ e = .acc c m ∧ err = "reply-accepted-without-outstanding-request") ∨
      (∃ c m p, pend = some p ∧ e = .acc c m ∧ (m = .internal ∨ RC.ridOf p ≠ RC.ridOf m) ∧
        err = "accepted-reply-for-other-request-id") ∨
      (∃ c m p, pend = some p ∧ e = .acc c m ∧ m ≠ .internal ∧ RC.ridOf p = RC.ridOf m ∧ ¬ IsReply wo m ∧
        err = "accepted-non-reply") := by
  constructor
  · intro h
    cases h with
    | second => exact Or.inl ⟨_, _, _, rfl, rfl, rfl⟩
    | nonRequest h => exact Or.inr (Or.inl ⟨_, _, rfl, rfl, h, rfl⟩)
    | noOutstanding => exact Or.inr (Or.inr (Or.inl ⟨_, _, rfl, rfl, rfl⟩))
    | otherId h => exact Or.inr (Or.inr (Or.inr (Or.inl ⟨_, _, _, rfl, rfl, h, rfl⟩)))
    | nonReply h1 h2 h3 => exact Or.inr (Or.inr (Or.inr (Or.inr ⟨_, _, _, rfl, rfl, h1, h2, h3, rfl⟩)))
  · rintro (⟨c, m, p, rfl, rfl, rfl⟩ | ⟨c, m, rfl, rfl, h, rfl⟩ | ⟨c, m, rfl, rfl, rfl⟩ | ⟨c, m, p, rfl, rfl, h, rfl⟩ |
      ⟨c, m, p, rfl, rfl, h1, h2, h3, rfl⟩)
    · exact Viol.second
    · exact Viol.nonRequest h
    · exact Viol.noOutstanding
    · exact Viol.otherId h
    · exact Viol.nonReply h1 h2 h3

/-! ## 3. the verdict of the oracle -/
theorem C18_oracle_clients (log : List LogEv) (c : Nat) : c ∈ clientsOf log ↔ ∃ e ∈ log, e.client = c :=
  mem_clientsOf

/-- the driver's `oracleMirror` is `oracleMirrorD`, the oracle written as an error list -/
theorem C18_oracle_verdict_driver (wo : Bool) (log : List LogEv) (valid : Bool)
    (content : List (Nat × List SExp × Option SExp)) :
    oracleMirror wo log valid content = oracleMirrorD wo log valid content := rfl

/-- what `oracleMirror` literally checks: the validity flag is set; for every client with an event: the ids
    of the requests it sent are pairwise distinct, `mirrorClient` succeeds on its events and the entry of
    `content` for that client carries exactly `mirrorClient`'s result; no thread is listed twice in `content`;
    every entry of `content` for a thread without events is empty -/
theorem C18_oracle_verdict_literal (wo : Bool) (log : List LogEv) (valid : Bool)
    (content : List (Nat × List SExp × Option SExp)) :
    oracleMirror wo log valid content = "ok" ↔
      valid = true ∧
      (∀ c ∈ clientsOf log,
        (sendRids (clog c log)).Nodup ∧
        ∃ done pend, mirrorClient wo (clog c log) [] none = .ok (done, pend) ∧
          content.find? (fun e => e.1 == c) = some (c, done, pend)) ∧
      (content.map (·.1)).Nodup ∧
      (∀ e ∈ content, e.1 ∉ clientsOf log → e.2.1 = [] ∧ e.2.2 = none) := by
  rw [C18_oracle_verdict_driver]
  unfold oracleMirrorD
  rw [oracleMirrorG_ok_iff, errsG_nil_iff]
  refine and_congr_right fun _ => and_congr ?_ (and_congr_right fun _ => ?_)
  · exact forall_congr' fun c => imp_congr_right fun _ => clientErrs_nil_iff sxEqv_iff wo log content c
  · refine forall_congr' fun e => imp_congr_right fun _ => ?_
    rw [strayErrs_nil_iff]
    constructor
    · rintro (h | h) hn
      · exact absurd h hn
      · exact h
    · intro h
      by_cases hc : e.1 ∈ clientsOf log
      · exact Or.inl hc
      · exact Or.inr (h hc)

section generic
variable {H Op Ret : Type} {I : Iface H Op Ret} {wo : Bool}

/-- the verdict in terms of the model: `ok` iff the implementation's validity flag is set (what the model's
    tester says on every reachable state, `C18_wellformed`), every client with an event follows the
    protocol, uses pairwise distinct request ids (`ridsOf`, as in `C18_fresh_ids`) and its entry in the
    implementation's tester content is the rendering of `RC.mirror` of the log (`C18_mirror`), no thread
    is listed twice, and threads without events have no operations -/
theorem C18_oracle_verdict (R : Render I wo) (log : List LogEv) (valid : Bool)
    (content : List (Nat × List SExp × Option SExp)) :
    oracleMirror wo log valid content = "ok" ↔
      valid = true ∧
      (∀ c ∈ clientsOf log,
        Alt wo none (clog c log) ∧ (ridsOf c (log.map cev)).Nodup ∧
        content.find? (fun e => e.1 == c) = some (c, R.content (mirror I wo c (log.map cev)))) ∧
      (content.map (·.1)).Nodup ∧
      (∀ e ∈ content, e.1 ∉ clientsOf log → e.2.1 = [] ∧ e.2.2 = none) := by
  rw [C18_oracle_verdict_literal]
  refine and_congr_right fun _ => and_congr ?_ Iff.rfl
  refine forall_congr' fun c => imp_congr_right fun _ => ?_
  constructor
  · rintro ⟨hnd, done, pend, hm, hf⟩
    obtain ⟨ha, hr⟩ := (C18_oracle_mirror_agrees R c log (done, pend)).1 hm
    rw [sendRids_eq_ridsOf c log (fun c' m hm => request_ne_internal (alt_send_request ha hm))] at hnd
    exact ⟨ha, hnd, by rw [hf, hr]⟩
  · rintro ⟨ha, hnd, hf⟩
    rw [← sendRids_eq_ridsOf c log (fun c' m hm => request_ne_internal (alt_send_request ha hm))] at hnd
    exact ⟨hnd, _, _, mc_agrees R c log ha, hf⟩

end generic

/-! ## 4. on the logs of the harness system -/
section reachable
variable {H Op Ret : Type} {cfg : Cfg} {I : Iface H Op Ret} (V : HistView I) {h0 : H}
open SR.C18

/-- every client follows the protocol on every reachable log (the hypothesis of `C18_oracle_mirror_agrees`
    is what the system of the C18 theorems guarantees), and the awaited request id is that of the last,
    unanswered request -/
theorem C18_oracle_protocol_reachable (hcfg : cfg.Ok) (hf : Fresh V h0) {s : HSt H} (hr : Reach cfg I h0 s) (c : Nat) :
    Alt cfg.wo none (clog c (s.log.map lev)) ∧
    (∀ st, find? c s.sys.clients = some st →
      st.awaiting = (pendOf (clog c (s.log.map lev))).map RC.ridOf) ∧
    (find? c s.sys.clients = none → clog c (s.log.map lev) = []) := by
  have hP := reach_proto hcfg V hf.good hf.valid hf.empty hr
  refine ⟨hP.alt c, ?_, hP.idle c⟩
  intro st hst
  rw [← pendAfter_none_eq]
  exact hP.await c st hst

/-- on a reachable log the oracle answers `ok` exactly when the implementation's validity flag is the
    model's (`true`) and its tester content is the rendering of the model tester's content (completed pairs
    and in-flight operation of the thread) at every thread it lists, lists every client with an event and no
    thread twice. No false alarm when the implementation agrees with the model, an alarm otherwise. -/
theorem C18_oracle_verdict_reachable (R : Render I cfg.wo) (hcfg : cfg.Ok) (hf : Fresh V h0) {s : HSt H}
    (hr : Reach cfg I h0 s) (valid : Bool) (content : List (Nat × List SExp × Option SExp)) :
    oracleMirror cfg.wo (s.log.map lev) valid content = "ok" ↔
      valid = V.valid s.sys.hist ∧
      (∀ c ∈ clientsOf (s.log.map lev),
        content.find? (fun e => e.1 == c) = some (c, R.content (V.done s.sys.hist c, V.inflight s.sys.hist c))) ∧
      (content.map (·.1)).Nodup ∧
      (∀ e ∈ content, e.1 ∉ clientsOf (s.log.map lev) →
        (e.2.1, e.2.2) = R.content (V.done s.sys.hist e.1, V.inflight s.sys.hist e.1)) := by
  rw [C18_oracle_verdict R, C18_wellformed V hcfg hf hr, map_cev_map_lev]
  refine and_congr_right fun _ => and_congr ?_ (and_congr_right fun _ => ?_)
  · refine forall_congr' fun c => imp_congr_right fun hc => ?_
    rw [(C18_mirror V hcfg hf hr c).1]
    constructor
    · exact fun h => h.2.2
    · intro h
      refine ⟨(C18_oracle_protocol_reachable V hcfg hf hr c).1, ?_, h⟩
      cases hst : find? c s.sys.clients with
      | some st => exact (C18_fresh_ids V hcfg hf hr c st hst).2.1
      | none =>
        exfalso
        have hnil := (C18_oracle_protocol_reachable V hcfg hf hr c).2.2 hst
        obtain ⟨e, he, hec⟩ := mem_clientsOf.1 hc
        have : e ∈ clog c (s.log.map lev) := by
          unfold clog; exact List.mem_filter.2 ⟨he, by simp [hec]⟩
        rw [hnil] at this; cases this
  · refine forall_congr' fun e => imp_congr_right fun _ => imp_congr_right fun hn => ?_
    have hm := mirror_of_not_client I cfg.wo hn
    rw [map_cev_map_lev] at hm
    rw [(C18_mirror V hcfg hf hr e.1).1, hm]
    simp [Render.content]

end reachable

/-! ## non-vacuity -/
section examples
open SR.C18

/-- two clients, interleaved: client 1 completes a `Put` and a `Get`, client 2 a `Put` and has a `Get` outstanding -/
def exLog : List LogEv :=
  [.send 1 (.put 1 65), .send 2 (.put 2 66), .acc 1 (.putOk 1), .send 1 (.get 2), .acc 2 (.putOk 2),
   .send 2 (.get 4), .acc 1 (.getOk 2 66)]

def exContent : List (Nat × List SExp × Option SExp) :=
  [(1, [.list [.list [.atom "w", .ofNat 65], .atom "wok"], .list [.atom "r", .list [.atom "rok", .ofNat 66]]], none),
   (2, [.list [.list [.atom "w", .ofNat 66], .atom "wok"]], some (.atom "r"))]

example : Alt false none (clog 1 exLog) ∧ Alt false none (clog 2 exLog) ∧ clientsOf exLog = [1, 2] := by decide
example : mirrorClient false (clog 2 exLog) [] none =
    .ok ([.list [.list [.atom "w", .ofNat 66], .atom "wok"]], some (.atom "r")) := rfl
example : oracleMirror false exLog true exContent = "ok" := by decide
example : oracleMirror false exLog true (exContent.take 1) = "tester-has-no-thread-2" := by decide
example : oracleMirror false exLog false exContent ≠ "ok" := by decide
/-- write-once flavour: `PutFail` is a reply, the value read is rendered as an option -/
example : mirrorClient true [.send 3 (.put 3 65), .acc 3 (.putFail 3), .send 3 (.get 6), .acc 3 (.getOk 6 66)] [] none =
    .ok ([.list [.list [.atom "w", .ofNat 65], .atom "wfail"],
          .list [.atom "r", .list [.atom "rok", SExp.ofOpt SExp.ofNat (some 66)]]], none) := rfl
/-- the five violations -/
example : mirrorClient false [.send 1 (.put 1 65), .send 1 (.get 2)] [] none =
    .error "second-request-while-one-outstanding" := rfl
example : mirrorClient false [.send 1 (.putOk 1)] [] none = .error "client-sent-non-request" := rfl
example : mirrorClient false [.send 1 (.put 1 65), .acc 1 (.putOk 1), .acc 1 (.putOk 1)] [] none =
    .error "reply-accepted-without-outstanding-request" := rfl
example : mirrorClient false [.send 1 (.put 1 65), .acc 1 (.putOk 2)] [] none =
    .error "accepted-reply-for-other-request-id" := rfl
example : mirrorClient false [.send 1 (.put 1 65), .acc 1 (.putFail 1)] [] none = .error "accepted-non-reply" := rfl
example : Alt false none [.send 1 (.put 1 65)] ∧ pendOf [.send 1 (.put 1 65)] = some (.put 1 65) ∧
    Viol false (some (.put 1 65)) (.acc 1 (.putFail 1)) "accepted-non-reply" :=
  ⟨by decide, rfl, Viol.nonReply (by decide) rfl (by decide)⟩
/-- a request id used twice passes `mirrorClient` and is caught by the id test of `oracleMirror` -/
example : oracleMirror false [.send 1 (.put 1 65), .acc 1 (.putOk 1), .send 1 (.get 1)] true
    [(1, [.list [.list [.atom "w", .ofNat 65], .atom "wok"]], some (.atom "r"))] = "request-id-reused-by-1" := by decide
/-- a `content` that lists a thread twice is refused (only the first entry would be compared) -/
example : oracleMirror false [.send 1 (.put 1 65)] true
    [(1, [], some (.list [.atom "w", .ofNat 65])), (1, [.atom "garbage"], none)] =
    "tester-content-lists-a-thread-twice" := by decide
/-- a reachable state of the harness (configuration `cfg1` of Props/C18: one server, one client) -/
example : ∃ s, Reach cfg1 regLin (Tester.new 63) s ∧ s.log.map lev = [LogEv.send 1 (.put 1 65)] :=
  ⟨_, Reach.step Reach.init (Step.start (c := ⟨1, 1⟩) (st := _) (outs := _) rfl rfl), rfl⟩

end examples

end SR.C18Oracle
