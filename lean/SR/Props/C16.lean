import SR.Proofs.Orl
/-! # C16 — the ordered reliable link delivers every message exactly once, in order

Statement (properties.jsonl): between two link-wrapped actors that do not restart, over a network that may
drop, duplicate and reorder messages, the receiving actor is handed the sender's messages exactly once and in
the order they were sent: at every reachable state the sequence handed over is a prefix of the sequence sent
to that peer.  A message is never acknowledged and discarded before it was handed over, so once all
retransmissions are acknowledged the two sequences are equal.

Model: `SR.Orl` (lean/SR/Actor/Orl.lean), the code as it is after the F8 repair.  All theorems quantify over
* every wrapped actor `W` (arbitrary functions, including ones that ignore messages = the no-op path, and
  ones that leave their state borrowed but emit sends),
* every number of actors `n` and every ordered pair `(s, d)` of them (also `s = d`, also `d ≥ n`),
* every finite sequence `ls` of machine steps from the initial world: deliveries of ANY in-flight packet
  (reordering), drops (loss), duplications, resend timers — `run … = some st` says the sequence was
  executable (packets delivered were in flight; no handler hit one of the `todo!()`s, which are rejected
  inputs: `SetTimer`/`CancelTimer`/`ChooseRandom` from a wrapped actor).
Restarts are excluded by the property and do not exist in the machine.

Ghost logs: `msgsFrom (st.nodes d) s` = the messages for which the wrapped actor of `d` was called with
source `s`, in call order (a message the wrapped actor ignores is still handed over); `seqsFrom` = their
sequencers; `sentTo (st.nodes s) d` = the messages the wrapped actor of `s` sent to `d`, in order.
-/
namespace SR.C16
open SR.Orl

variable {μ σ : Type} [DecidableEq μ]

/-- **Prefix, full strength**: at every reachable state, for every ordered pair, what was handed over is a
prefix of what was sent — under loss, duplication and arbitrary reordering. -/
theorem C16_prefix (W : Wrapped μ σ) (n : Nat) (ls : List (Label μ)) (st0 st : World μ σ)
    (hi : init W n = some st0) (hr : run W n st0 ls = some st) (s d : Id) :
    msgsFrom (st.nodes d) s <+: sentTo (st.nodes s) d := by
  have inv := reach_inv W n ⟨st0, ls, hi, hr⟩
  rw [inv.msgs s d]
  exact List.take_prefix _ _

/-- **Exactly once**: the sequencers handed over from `s` are exactly `1, 2, …, k` in this order — none
twice, none skipped — and the message handed over with sequencer `q` is the `q`-th message sent. -/
theorem C16_no_redelivery (W : Wrapped μ σ) (n : Nat) (ls : List (Label μ)) (st0 st : World μ σ)
    (hi : init W n = some st0) (hr : run W n st0 ls = some st) (s d : Id) :
    seqsFrom (st.nodes d) s = List.range' 1 (msgsFrom (st.nodes d) s).length ∧
    (seqsFrom (st.nodes d) s).Nodup ∧
    ∀ q m, (q, m) ∈ handedFrom (st.nodes d) s → 1 ≤ q ∧ (sentTo (st.nodes s) d)[q - 1]? = some m := by
  have inv := reach_inv W n ⟨st0, ls, hi, hr⟩
  have hlen : (msgsFrom (st.nodes d) s).length = getD (st.nodes d).lastDel s 0 := by
    rw [inv.msgs s d, List.length_take]; exact Nat.min_eq_left (inv.le s d)
  have hseq : seqsFrom (st.nodes d) s = List.range' 1 (msgsFrom (st.nodes d) s).length := by
    rw [hlen]; exact inv.seqs s d
  refine ⟨hseq, by rw [hseq]; exact List.nodup_range', ?_⟩
  intro q m hm
  obtain ⟨i, hi', hget⟩ := List.getElem_of_mem hm
  have h1 : (seqsFrom (st.nodes d) s)[i]? = some q := by simp [seqsFrom, hi', hget]
  have h2 : (msgsFrom (st.nodes d) s)[i]? = some m := by simp [msgsFrom, hi', hget]
  have hi2 : i < getD (st.nodes d).lastDel s 0 := by
    have : i < (msgsFrom (st.nodes d) s).length := by simpa [msgsFrom] using hi'
    omega
  rw [inv.seqs s d, List.getElem?_range' hi2] at h1
  rw [inv.msgs s d, List.getElem?_take_of_lt hi2] at h2
  have hq : q = 1 + i := by simpa using h1.symm
  subst hq
  exact ⟨by omega, by simpa using h2⟩

/-- **No early acknowledgement (in flight)**: whenever an `Ack(q)` from `d` to `s` is in the network — in
particular right after it was sent — message `q` of `s` has been handed to the wrapped actor of `d` (which
may have ignored it), and it is the `q`-th message `s` sent to `d`. -/
theorem C16_no_early_ack (W : Wrapped μ σ) (n : Nat) (ls : List (Label μ)) (st0 st : World μ σ)
    (hi : init W n = some st0) (hr : run W n st0 ls = some st) (s d : Id) (q : Nat)
    (hack : (⟨d, s, Env.ack q⟩ : Packet μ) ∈ st.net) :
    ∃ m, (q, m) ∈ handedFrom (st.nodes d) s ∧ (sentTo (st.nodes s) d)[q - 1]? = some m := by
  have inv := reach_inv W n ⟨st0, ls, hi, hr⟩
  obtain ⟨h1, h2⟩ := inv.ack s d q hack
  have hq : q ∈ seqsFrom (st.nodes d) s := by
    rw [inv.seqs s d]; exact List.mem_range'_1.mpr ⟨h1, by omega⟩
  obtain ⟨⟨q', m⟩, hmem, rfl⟩ := List.mem_map.mp hq
  exact ⟨m, hmem, ((C16_no_redelivery W n ls st0 st hi hr s d).2.2 _ m hmem).2⟩

/-- **No early acknowledgement (processed)**: a message that `s` sent to `d` and no longer retransmits (its
acknowledgement was processed) has been handed to the wrapped actor of `d`. -/
theorem C16_no_early_ack_processed (W : Wrapped μ σ) (n : Nat) (ls : List (Label μ)) (st0 st : World μ σ)
    (hi : init W n = some st0) (hr : run W n st0 ls = some st) (s d : Id) (q : Nat)
    (hq1 : 1 ≤ q) (hq2 : q ≤ (sentTo (st.nodes s) d).length)
    (hnp : ∀ m, ((d, q), m) ∉ (st.nodes s).pending) :
    ∃ m, (q, m) ∈ handedFrom (st.nodes d) s ∧ (sentTo (st.nodes s) d)[q - 1]? = some m := by
  have inv := reach_inv W n ⟨st0, ls, hi, hr⟩
  have h2 := inv.done s d q hq1 hq2 hnp
  have hq : q ∈ seqsFrom (st.nodes d) s := by
    rw [inv.seqs s d]; exact List.mem_range'_1.mpr ⟨hq1, by omega⟩
  obtain ⟨⟨q', m⟩, hmem, rfl⟩ := List.mem_map.mp hq
  exact ⟨m, hmem, ((C16_no_redelivery W n ls st0 st hi hr s d).2.2 _ m hmem).2⟩

/-- **Complete once acknowledged** (per destination, which is stronger than the statement's "all
retransmissions acknowledged"): if `s` retransmits nothing to `d` any more, `d` was handed exactly what `s`
sent to it. -/
theorem C16_complete_when_acked (W : Wrapped μ σ) (n : Nat) (ls : List (Label μ)) (st0 st : World μ σ)
    (hi : init W n = some st0) (hr : run W n st0 ls = some st) (s d : Id)
    (hnp : ∀ q m, ((d, q), m) ∉ (st.nodes s).pending) :
    msgsFrom (st.nodes d) s = sentTo (st.nodes s) d := by
  have inv := reach_inv W n ⟨st0, ls, hi, hr⟩
  rw [inv.msgs s d]
  apply List.take_of_length_le
  by_cases h0 : (sentTo (st.nodes s) d).length = 0
  · omega
  · exact inv.done s d _ (by omega) (Nat.le_refl _) (hnp _)

/-- the statement's own wording: nothing at all awaits an acknowledgement at `s` -/
theorem C16_complete_when_all_acked (W : Wrapped μ σ) (n : Nat) (ls : List (Label μ)) (st0 st : World μ σ)
    (hi : init W n = some st0) (hr : run W n st0 ls = some st) (s : Id)
    (hnp : (st.nodes s).pending = []) (d : Id) :
    msgsFrom (st.nodes d) s = sentTo (st.nodes s) d :=
  C16_complete_when_acked W n ls st0 st hi hr s d (by simp [hnp])

/-- **The same for `ActorModel`**: every state the real checker can reach for an ORL-wrapped system — over
the duplicating, the non-duplicating and the ordered network, lossy or not, whatever actions are taken — is
reachable in the protocol machine (each `next_state` is a short run: `implNext`), hence satisfies all of
the above.  `implNext` is what the correspondence check compares with the crate at every explored
(state, action). -/
theorem C16_actor_model_states_are_machine_states (W : Wrapped μ σ) (n : Nat) (kind : Kind)
    (st : World μ σ) (h : ImplReach W n kind st) : Reach W n st := by
  induction h with
  | init hi => exact ⟨_, [], hi, rfl⟩
  | next a _ hn ih =>
    obtain ⟨ls, hr⟩ := implNext_run W n kind _ _ a hn
    exact reach_run W n ih ls hr

theorem C16_prefix_actor_model (W : Wrapped μ σ) (n : Nat) (kind : Kind) (st : World μ σ)
    (h : ImplReach W n kind st) (s d : Id) : msgsFrom (st.nodes d) s <+: sentTo (st.nodes s) d := by
  obtain ⟨st0, ls, hi, hr⟩ := C16_actor_model_states_are_machine_states W n kind st h
  exact C16_prefix W n ls st0 st hi hr s d

/-! ## Non-vacuity: a concrete three-message run with reordering, duplication, loss and an ignored message

Actor 0 sends 7, 8, 9 to actor 1 from `on_start`; actor 1 logs what it is handed, except 8, which it ignores
(state borrowed, no output: the no-op path), and answers 9 with 5.  Schedule: `Deliver(3,9)` is duplicated
and overtakes the others (not handed, not ack'ed), `Deliver(2,8)` overtakes `Deliver(1,7)`, 7 is handed
over, the network loses the `Ack(1)`, the timer resends all three, the duplicate 7 is ack'ed again and not
handed over again, 8 is handed over (and ignored), 9 is handed over (the reply 5 goes out), the three acks
arrive. -/

def exW : Wrapped Nat (List Nat) where
  onStart := fun i => ([], if i = 0 then [WCmd.send 1 7, WCmd.send 1 8, WCmd.send 1 9] else [])
  onMsg := fun _ st _ m =>
    if m = 8 then (none, []) else (some (st ++ [m]), if m = 9 then [WCmd.send 0 5] else [])

def exRun : List (Label Nat) :=
  [ Label.dup ⟨0, 1, Env.deliver 3 9⟩,
    Label.deliver ⟨0, 1, Env.deliver 3 9⟩,      -- overtook 1 and 2: consumed, not handed, not ack'ed
    Label.deliver ⟨0, 1, Env.deliver 2 8⟩,      -- overtook 1
    Label.deliver ⟨0, 1, Env.deliver 1 7⟩,      -- handed over, Ack(1)
    Label.drop ⟨1, 0, Env.ack 1⟩,               -- the ack is lost
    Label.timeout 0,                            -- resend 1, 2, 3
    Label.deliver ⟨0, 1, Env.deliver 1 7⟩,      -- duplicate: ack'ed again, not handed over again
    Label.deliver ⟨0, 1, Env.deliver 3 9⟩,      -- still too early (the second copy)
    Label.deliver ⟨0, 1, Env.deliver 2 8⟩,      -- handed over; the wrapped actor ignores it; Ack(2)
    Label.deliver ⟨0, 1, Env.deliver 3 9⟩,      -- handed over; reply 5 is sent with sequencer 1; Ack(3)
    Label.deliver ⟨1, 0, Env.ack 2⟩,
    Label.deliver ⟨1, 0, Env.ack 3⟩,
    Label.deliver ⟨1, 0, Env.ack 1⟩ ]

/-- what is observed of a world in the examples -/
def exView (st : World Nat (List Nat)) :=
  (msgsFrom (st.nodes 1) 0, seqsFrom (st.nodes 1) 0, sentTo (st.nodes 0) 1, (st.nodes 1).wrapped,
   (st.nodes 0).pending, st.net)

/-- the run is executable and ends with everything handed over exactly once, in order, nothing pending at
the sender, the reply still in flight (so the hypotheses of all theorems above are satisfiable) -/
example : ((init exW 2).bind (fun st0 => run exW 2 st0 exRun)).map exView =
    some ([7, 8, 9], [1, 2, 3], [7, 8, 9], [7, 9], [], [⟨1, 0, Env.deliver 1 5⟩]) := by rfl

/-- in the middle of it (after the first seven steps) the handed sequence is a proper prefix and an `Ack` is
in flight -/
example : ((init exW 2).bind (fun st0 => run exW 2 st0 (exRun.take 7))).map exView =
    some ([7], [1], [7, 8, 9], [7], [((1, 3), 9), ((1, 2), 8), ((1, 1), 7)],
      [⟨0, 1, Env.deliver 3 9⟩, ⟨0, 1, Env.deliver 3 9⟩, ⟨0, 1, Env.deliver 2 8⟩, ⟨1, 0, Env.ack 1⟩]) := by rfl

/-- the F8 schedule (`Deliver(2,·)` overtakes `Deliver(1,·)`) no longer hands anything over -/
example : ((init exW 2).bind (fun st0 => run exW 2 st0 [Label.deliver ⟨0, 1, Env.deliver 2 8⟩])).map exView =
    some ([], [], [7, 8, 9], [], [((1, 3), 9), ((1, 2), 8), ((1, 1), 7)],
      [⟨0, 1, Env.deliver 1 7⟩, ⟨0, 1, Env.deliver 3 9⟩]) := by rfl

/-- a handler that reaches one of the link's `todo!()`s makes the step (and `init`) undefined -/
example : (init ({ exW with onStart := fun _ => ([], [WCmd.unsupported]) } : Wrapped Nat (List Nat)) 2).isNone = true := by
  decide

end SR.C16
