/-! # C16 — property theorems (stub: nothing stated yet) -/
namespace SR.C16
end SR.C16
