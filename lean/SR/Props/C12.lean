/-! # C12 — property theorems (stub: nothing stated yet) -/
namespace SR.C12
end SR.C12
