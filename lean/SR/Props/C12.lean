import SR.Proofs.HasDisc
/-!
# C12 — run controls are honoured: finish conditions, targets, depth, timeout, seed

Property theorems only.

* Section "HasDiscoveries::matches" (market worker): each variant of `HasDiscoveries` means what its
  name says. Model: `SR/Util/HasDisc.lean` (transcription of src/has_discoveries.rs). `D` is the set of
  discovered property names, `props` the property list; the hypotheses are the ones the checkers
  guarantee: `D` is a set (`Nodup`), every discovered name is the name of a property (`D ⊆ names props`)
  and property names are distinct. Only `All` needs them (it compares two lengths); the negative
  examples below show that each of the three hypotheses is necessary for `All`.
* Section "checker machine" (lead): the theorems about stopping early, targets, depth, timeout and
  seed replay over the checker machine.
-/
namespace SR.C12
open SR.HasDisc

/-! ## HasDiscoveries::matches -/

/-- `All`: every property has a discovery. -/
theorem C12_matches_all (D : List Nat) (props : List P)
    (hD : D.Nodup) (hsub : D ⊆ names props) (hn : (names props).Nodup) :
    «matches» .all D props = true ↔ ∀ p ∈ props, p.name ∈ D := by
  have hlen : props.length = (names props).length := by simp [names]
  have key := length_eq_iff_subset hD hn hsub
  simp only [«matches», beq_iff_eq, hlen]
  rw [key]
  constructor
  · intro h p hp; exact h (List.mem_map.2 ⟨p, hp, rfl⟩)
  · intro h n hn'
    obtain ⟨p, hp, rfl⟩ := List.mem_map.1 hn'
    exact h p hp

/-- `Any`: at least one discovery, whatever it is. -/
theorem C12_matches_any (D : List Nat) (props : List P) :
    «matches» .any D props = true ↔ D ≠ [] := by
  cases D <;> simp [«matches»]

/-- `AnyFailures`: some property whose discovery is a failure (always / eventually) has a discovery. -/
theorem C12_matches_anyF (D : List Nat) (props : List P) :
    «matches» .anyFailures D props = true ↔ ∃ p ∈ props, p.exp ≠ .sometimes ∧ p.name ∈ D := by
  simp only [«matches», List.any_eq_true, List.mem_filter, contains_iff]
  constructor
  · rintro ⟨p, ⟨hp, hf⟩, hd⟩
    refine ⟨p, hp, ?_, hd⟩
    intro he; rw [he] at hf; simp [isFailure] at hf
  · rintro ⟨p, hp, hne, hd⟩
    refine ⟨p, ⟨hp, ?_⟩, hd⟩
    cases he : p.exp <;> simp_all [isFailure]

/-- `AllFailures`: every property whose discovery is a failure has a discovery. -/
theorem C12_matches_allF (D : List Nat) (props : List P) :
    «matches» .allFailures D props = true ↔ ∀ p ∈ props, p.exp ≠ .sometimes → p.name ∈ D := by
  simp only [«matches», List.all_eq_true, List.mem_filter, contains_iff]
  constructor
  · intro h p hp hne
    apply h p
    refine ⟨hp, ?_⟩
    cases he : p.exp <;> simp_all [isFailure]
  · rintro h p ⟨hp, hf⟩
    apply h p hp
    intro he; rw [he] at hf; simp [isFailure] at hf

/-- `AllOf(S)`: every name of `S` has a discovery. -/
theorem C12_matches_allOf (S D : List Nat) (props : List P) :
    «matches» (.allOf S) D props = true ↔ ∀ n ∈ S, n ∈ D := by
  simp [«matches»]

/-- `AnyOf(S)`: some name of `S` has a discovery. -/
theorem C12_matches_anyOf (S D : List Nat) (props : List P) :
    «matches» (.anyOf S) D props = true ↔ ∃ n ∈ S, n ∈ D := by
  simp [«matches»]

/-- Consequence used by the checkers' `is_done`: under the hypotheses of `C12_matches_all`, once `All`
    matches every other variant whose condition can still become true already matches
    (`AllFailures`, and `AnyFailures`/`Any`/`AnyOf` whenever they are satisfiable at all). -/
theorem C12_matches_all_implies (D : List Nat) (props : List P)
    (hD : D.Nodup) (hsub : D ⊆ names props) (hn : (names props).Nodup)
    (h : «matches» .all D props = true) :
    «matches» .allFailures D props = true ∧
    ((∃ p ∈ props, p.exp ≠ .sometimes) → «matches» .anyFailures D props = true) ∧
    (props ≠ [] → «matches» .any D props = true) ∧
    (∀ S, (∀ n ∈ S, n ∈ names props) → «matches» (.allOf S) D props = true) := by
  have hall := (C12_matches_all D props hD hsub hn).1 h
  refine ⟨(C12_matches_allF D props).2 (fun p hp _ => hall p hp), ?_, ?_, ?_⟩
  · rintro ⟨p, hp, hne⟩
    exact (C12_matches_anyF D props).2 ⟨p, hp, hne, hall p hp⟩
  · intro hne
    rw [C12_matches_any]
    cases props with
    | nil => exact absurd rfl hne
    | cons p ps =>
      intro hD0
      have := hall p (List.mem_cons_self)
      rw [hD0] at this; cases this
  · intro S hS
    rw [C12_matches_allOf]
    intro n hnS
    obtain ⟨p, hp, rfl⟩ := List.mem_map.1 (hS n hnS)
    exact hall p hp

/-! non-vacuity and necessity of the hypotheses of `C12_matches_all` -/
-- a satisfiable instance: two properties, both discovered
example : «matches» .all [0, 1] [⟨0, .always⟩, ⟨1, .sometimes⟩] = true := by decide
example : «matches» .all [1] [⟨0, .always⟩, ⟨1, .sometimes⟩] = false := by decide
-- `All` never looks at names: a *foreign* discovery makes it match although property 1 has none
example : «matches» .all [0, 7] [⟨0, .always⟩, ⟨1, .sometimes⟩] = true := by decide
-- two properties with the same name can have one discovery only: `All` can then never match
example : «matches» .all [0] [⟨0, .always⟩, ⟨0, .sometimes⟩] = false := by decide
-- failures only: the `sometimes` example does not count
example : «matches» .anyFailures [1] [⟨0, .always⟩, ⟨1, .sometimes⟩] = false := by decide
example : «matches» .allFailures [0] [⟨0, .always⟩, ⟨1, .sometimes⟩] = true := by decide
example : «matches» .allFailures [] [⟨1, .sometimes⟩] = true := by decide
example : «matches» (.allOf [0, 9]) [0] [⟨0, .always⟩] = false := by decide
example : «matches» (.anyOf [0, 9]) [0] [⟨0, .always⟩] = true := by decide

/-! ## checker machine: lead -/

end SR.C12
