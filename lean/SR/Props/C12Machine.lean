import SR.Proofs.Checker.Control
import SR.Proofs.Checker.Once
import SR.Proofs.Checker.BfsDepth
import SR.Proofs.Checker.DiscNames
import SR.Props.C12
/-!
# C12 (checker-machine part) — run controls are honoured

Property theorems only (the `HasDiscoveries::matches` theorems and the timing harness are in `Props/C12.lean`).
Model `SR/Checker/Machine.lean`: `cfg.maxDepth` = `target_max_depth`, `cfg.target` = `target_state_count`,
`finishMatches` = `finish_when.matches(discovered names, properties)`, `cfg.timeout` = a timeout is configured.
A worker may leave its loop (`stop why`) only when `stopEnabled why` holds in the current state; pending work is
discarded only after that — or when every property has a discovery.
-/
namespace SR.C12M
open SR SR.Checker

variable {σ κ α : Type} [DecidableEq κ] (P : Params σ κ α)

/-- **depth**: no state deeper than `target_max_depth` is ever evaluated — every visited path has fewer than
    `d` states (depth counts states: an initial state has depth 1). All schedules, all strategies. -/
theorem C12_depth (cs : List Choice) (d : Nat) (hd : P.cfg.maxDepth = some d) :
    ∀ p ∈ (run P cs).visits, p.length < d :=
  depthOk_run (P := P) cs d hd

/-- **early exit only for a reason**: a job is dropped unexpanded only if a depth limit is configured, or a
    worker has stopped, or every property has a discovery. -/
theorem C12_early_only_if (cs : List Choice) (he : (run P cs).early = true) :
    P.cfg.maxDepth.isSome = true ∨ (run P cs).stopped = true ∨ allDiscovered P (run P cs) = true :=
  earlyReason_run (P := P) cs he

/-- **a worker stops only when its stop condition holds at that moment**: the finish condition matches the
    discoveries made so far, or the target state count is reached, or a configured timeout fires, or model code
    panicked. -/
theorem C12_stop_only_if (cs : List Choice) (hs : (run P cs).stopped = true) :
    ∃ pre why post, cs = pre ++ Choice.stop why :: post ∧ stopEnabled P why (run P pre) = true :=
  stopped_only_if (P := P) _ (by simp [init]) cs hs

/-- what `stopEnabled` means, per reason -/
theorem C12_stop_reasons (s : St σ κ) :
    (stopEnabled P .finish s = true ↔ P.finishMatches (discNames s.disc) = true) ∧
    (stopEnabled P .target s = true ↔ ∃ n, P.cfg.target = some n ∧ n ≤ s.stateCount) ∧
    (stopEnabled P .timeout s = true ↔ P.cfg.timeout = true) := by
  refine ⟨Iff.rfl, ?_, Iff.rfl⟩
  unfold stopEnabled
  cases h : P.cfg.target with
  | none => simp
  | some n => simp

/-- **target**: a run stopped by `target_state_count = n` has generated at least `n` states
    (`state_count` never decreases). -/
theorem C12_target (pre post : List Choice) (n : Nat) (hn : P.cfg.target = some n)
    (hen : stopEnabled P .target (run P pre) = true) :
    n ≤ (run P (pre ++ Choice.stop .target :: post)).stateCount := by
  have h1 : n ≤ (run P pre).stateCount := by
    obtain ⟨m, hm, hle⟩ := ((C12_stop_reasons P _).2.1).1 hen
    rw [hn] at hm; cases hm; exact hle
  have : run P (pre ++ Choice.stop .target :: post) = runFrom P (run P pre) (Choice.stop .target :: post) := by
    unfold run; rw [runFrom_append]
  rw [this]
  exact Nat.le_trans h1 (mono_runFrom (P := P) _ _).count

/-- **never fewer states than exist when nothing stopped the run**: if a run ends without `early`, every
    reachable state was generated (so a target larger than the state space changes nothing). -/
theorem C12_no_stop_all_generated (hinj : ∀ a b, P.M.Reach a → P.M.Reach b → P.key a = P.key b → a = b)
    (cs : List Choice) (hq : Quiescent (run P cs)) (he : (run P cs).early = false) :
    ∀ t, P.M.Reach t → P.key t ∈ (run P cs).gen := by
  intro t ht
  have hcomp := complete_of_quiescent (P := P) Eq hinj (fun _ _ _ h1 h2 => h1.trans h2)
    (fun a b hab a' ha' => ⟨a', hab ▸ ha', rfl⟩) cs hq he t ht
  obtain ⟨u, hu, rfl⟩ := hcomp
  have hn := ninv_run (P := P) cs
  exact hn.inGen _ (List.mem_append_left _ (hn.actVis _ (List.mem_append_right _ hu)))

/-- **an unexpired timeout changes nothing**: a schedule in which the timeout never fires produces the same
    state with and without the timeout configured. -/
theorem C12_timeout_neutral (cs : List Choice) (hc : ∀ c ∈ cs, c ≠ Choice.stop .timeout) :
    run (noTimeout P) cs = run P cs := by
  unfold run
  exact runFrom_noTimeout (P := P) cs hc _

/-- **single-threaded BFS still evaluates every state nearer than the depth limit**: for every FIFO single-worker
    run (the BFS scheduler is one, `C13_scheduler_is_fifo`) with `target_max_depth = d` that completes without any
    other stop reason (no worker stopped, not everything discovered), every state that has an in-boundary path of
    fewer than `d` states from an initial state has been evaluated. -/
theorem C12_bfs_depth_complete (hinj : ∀ a b, P.M.Reach a → P.M.Reach b → P.key a = P.key b → a = b)
    (cs : List Choice) (hf : FifoRun P (init P.M P.props P.key) cs)
    (hq : Quiescent (run P cs)) (hstop : (run P cs).stopped = false) (hall : allDiscovered P (run P cs) = false)
    (d : Nat) (hd : P.cfg.maxDepth = some d) :
    ∀ q t, P.M.IsPath q → q.getLast? = some t → q.length < d → t ∈ visitedStates (run P cs) := by
  intro q t hq' hl hlt
  have := bfs_depth_complete (P := P) hinj cs hf hq ⟨hstop, hall⟩ d hd q t hq' hl hlt
  exact (ninv_run (P := P) cs).actVis _ (List.mem_append_right _ this)

/-! ### the finish condition, composed with the variant semantics of `Props/C12.lean`

`hdProps`: what `HasDiscoveries::matches` reads of the property list when names are indices.  `finishOf c` is the
machine's `finishMatches` parameter for `finish_when(c)`. -/

def hdProps (props : List (Prop' σ)) : List HasDisc.P :=
  (List.range props.length).map fun i => { name := i, exp := (props[i]?.map (·.exp)).getD .always }

def finishOf (c : HasDisc.Cond) (props : List (Prop' σ)) : List Nat → Bool :=
  fun d => HasDisc.matches c d (hdProps props)

/-- **a worker that stops for `finish_when(c)` does so at a moment when `c` matches the discoveries made so far** —
    and the discovered names form a set of property names, so the `C12_matches_*` theorems give `c` its declared
    meaning there (e.g. `AnyFailures`: some always/eventually property has a counterexample at that moment). -/
theorem C12_finish_stop_matches (c : HasDisc.Cond) (hfm : P.finishMatches = finishOf c P.props)
    (pre : List Choice) (hstop : (run P pre).stopped = false)
    (hs : (run P (pre ++ [Choice.stop .finish])).stopped = true) :
    HasDisc.matches c (discNames (run P pre).disc) (hdProps P.props) = true ∧
    (discNames (run P pre).disc).Nodup ∧
    (∀ n ∈ discNames (run P pre).disc, n < P.props.length ∧ hasDisc (run P pre).disc n = true) := by
  refine ⟨?_, discNodup_run (P := P) pre, ?_⟩
  · have hrun : run P (pre ++ [Choice.stop .finish]) = stepStop P .finish (run P pre) := by
      unfold run; rw [runFrom_append]; simp [runFrom, step]
    rw [hrun] at hs
    unfold stepStop at hs
    by_cases hen : stopEnabled P .finish (run P pre) = true
    · have : P.finishMatches (discNames (run P pre).disc) = true := hen
      rw [hfm] at this; exact this
    · rw [if_neg hen, hstop] at hs; cases hs
  · intro n hn
    have hd := (mem_discNames_iff _ n).1 hn
    refine ⟨?_, hd⟩
    unfold hasDisc at hd
    obtain ⟨e, he, hei⟩ := List.any_eq_true.1 hd
    have : e.1 = n := by simpa using hei
    rw [← this]
    exact ((sinv_run (P := P) pre).disc e he).2.1

/-- example of the composed meaning, for `AnyFailures`: at the moment of the stop some always- or
    eventually-property has a discovery -/
theorem C12_finish_anyFailures (hfm : P.finishMatches = finishOf .anyFailures P.props)
    (pre : List Choice) (hstop : (run P pre).stopped = false)
    (hs : (run P (pre ++ [Choice.stop .finish])).stopped = true) :
    ∃ i pr, P.props[i]? = some pr ∧ pr.exp ≠ .sometimes ∧ hasDisc (run P pre).disc i = true := by
  obtain ⟨hm, _, _⟩ := C12_finish_stop_matches P .anyFailures hfm pre hstop hs
  simp only [HasDisc.matches, List.any_eq_true, List.mem_filter] at hm
  obtain ⟨p, ⟨hp, hfail⟩, hc⟩ := hm
  simp only [hdProps, List.mem_map, List.mem_range] at hp
  obtain ⟨i, hi, rfl⟩ := hp
  have hpr : P.props[i]? = some P.props[i] := List.getElem?_eq_getElem hi
  refine ⟨i, P.props[i], hpr, ?_, ?_⟩
  · simp only [hpr, Option.map_some, Option.getD_some] at hfail
    intro he; rw [he] at hfail; simp [HasDisc.isFailure] at hfail
  · simp only [List.contains_eq_mem, decide_eq_true_eq] at hc
    exact (mem_discNames_iff _ i).1 hc

end SR.C12M
