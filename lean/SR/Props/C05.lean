/-! # C05 — property theorems (stub: nothing stated yet) -/
namespace SR.C05
end SR.C05
