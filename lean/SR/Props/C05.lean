import SR.Proofs.MarketRun
import SR.Proofs.MarketTerm
import SR.Proofs.MarketOpen
/-!
# C05 — parallel checking is schedule-independent, loses no work, terminates

Property theorems only.

* Section "job market" (market worker), part (b) of DESIGN.md §5.C05: the job market of
  src/job_market.rs as a transition system (`SR/Market/Machine.lean`: one `Step` per critical section of
  the mutex). Every theorem is about `mrun (init k tc) ms` for ALL step lists `ms` (steps that are not
  enabled are skipped), i.e. for every interleaving of `k` workers, the owner of the checker and the
  timeout thread, every resolution of `notify_one`, and spurious wake-ups. `tc ≤ k`: the market is
  created for at most as many threads as there are workers (the checkers use `tc = k`).
* Section "checker machine" (lead): part (a), schedule independence over the checker machine.
-/
namespace SR.C05
open SR.Market

/-! ## job market (part b) -/

/-- **No pending job is dropped, none is handed to two workers.** While the market is open, the jobs held
    in the shared batches and in the workers' deques, together with the jobs already consumed, are
    exactly the jobs ever created (as multisets), and no job is in two places. (Once the market is
    closed the remaining jobs are discarded on purpose: `Drop` clears the batches, `split_and_push`
    clears the caller's deque.) -/
theorem C05_conservation (k tc : Nat) (h : tc ≤ k) (ms : List Step)
    (ho : (mrun (init k tc) ms).isOpen = true) :
    (tokensIn (mrun (init k tc) ms) ++ (mrun (init k tc) ms).consumed).Perm (mrun (init k tc) ms).created
    ∧ (tokensIn (mrun (init k tc) ms) ++ (mrun (init k tc) ms).consumed).Nodup := by
  have inv := minv_mrun ms (minv_init k tc h)
  have hperm : (tokensIn (mrun (init k tc) ms) ++ (mrun (init k tc) ms).consumed).Perm
      (mrun (init k tc) ms).created := by
    rw [List.perm_iff_count]
    intro t
    rw [List.count_append]
    exact inv.t.cons ho t
  exact ⟨hperm, hperm.nodup_iff.2 inv.t.nodup⟩

/-- **No lost wake-up.** Never: somebody waits on the condition variable, nobody is running and nobody has
    been notified. (So a waiting worker always has a colleague that will either push work, or stop — and
    `C05_stop_notifies` says a stopping colleague notifies everybody.) -/
theorem C05_no_lost_wakeup (k tc : Nat) (h : tc ≤ k) (ms : List Step) :
    ¬ (∃ (w : Nat) (b : Bool), (mrun (init k tc) ms).pcs[w]? = some (Pc.parked b))
    ∨ (∃ w : Nat, (mrun (init k tc) ms).pcs[w]? = some Pc.running)
    ∨ (∃ w : Nat, (mrun (init k tc) ms).pcs[w]? = some (Pc.parked true)) := by
  have inv := (minv_mrun ms (minv_init k tc h)).p.noLost
  by_cases hp : ∃ (w : Nat) (b : Bool), (mrun (init k tc) ms).pcs[w]? = some (Pc.parked b)
  · obtain ⟨w, b, hw⟩ := hp
    cases b with
    | true => exact Or.inr (Or.inr ⟨w, hw⟩)
    | false =>
      rcases inv (List.mem_of_getElem? hw) with hr | hn
      · obtain ⟨i, hi⟩ := List.getElem?_of_mem hr; exact Or.inr (Or.inl ⟨i, hi⟩)
      · obtain ⟨i, hi⟩ := List.getElem?_of_mem hn; exact Or.inr (Or.inr ⟨i, hi⟩)
  · exact Or.inl hp

/-- **`open_count` never exceeds the number of running workers**; extra `Drop`s (the handle kept by the
    checker object, the timeout thread's clone) only make it smaller — see the example below, and note the
    consequence: `is_closed()` can be true while a worker is still evaluating a block. -/
theorem C05_openCount (k tc : Nat) (h : tc ≤ k) (ms : List Step) :
    (mrun (init k tc) ms).openCount ≤ (mrun (init k tc) ms).pcs.count .running :=
  (minv_mrun ms (minv_init k tc h)).p.oc

/-- **While the market is open, `open_count` is EXACTLY the number of workers that are not waiting** (market created
    for as many threads as there are workers, as the checkers do).  This is what makes "the last running worker found no
    work" a sound reason to close the market: with a count that is too small the market would close while a colleague
    still holds pending jobs, and they would be discarded. -/
theorem C05_openCount_exact (k : Nat) (ms : List Step) (ho : (mrun (init k k) ms).isOpen = true) :
    (mrun (init k k) ms).openCount = (mrun (init k k) ms).pcs.count .running :=
  oinv_mrun k ms ho

/-- **A stop is final**: a market that is closed (last worker found no work, any clone dropped — normal
    return or unwinding panic —, or the timeout fired) never opens again, whatever happens next. -/
theorem C05_stop_final (s : MState) (ms : List Step) (hc : s.isOpen = false) :
    (mrun s ms).isOpen = false := mrun_closed ms hc

/-- **A stop reaches every running worker at its next market operation**: in a closed market `pop`
    returns empty at once (the worker then leaves its loop), `split_and_push` empties the caller's deque
    and shares nothing, `push` shares nothing, `is_shut_down()` is true (checked once per block). -/
theorem C05_stop_propagates (s : MState) (w : Nat) (hc : s.isOpen = false)
    (hw : s.pcs[w]? = some .running) :
    stepR s (.popBegin w) = some (s, some .empty)
    ∧ (∀ picks s', step s (.split w picks) = some s' →
        s'.batches = s.batches ∧ s'.locs = s.locs.set w [] ∧ s'.pcs = s.pcs)
    ∧ (∀ n picks s', step s (.push w n picks) = some s' → s'.batches = s.batches ∧ s'.pcs = s.pcs)
    ∧ isShutDown s = true := by
  refine ⟨by simp [stepR, hw, hc], ?_, ?_, by simp [isShutDown, hc]⟩
  · intro picks s' hs
    simp only [step, stepR, hw, hc] at hs
    split at hs <;> simp at hs
    obtain ⟨_, rfl⟩ := hs; exact ⟨rfl, rfl, rfl⟩
  · intro n picks s' hs
    simp only [step, stepR, hw, hc] at hs
    split at hs <;> simp at hs
    obtain ⟨_, rfl⟩ := hs; exact ⟨rfl, rfl⟩

/-- **Whoever stops wakes everybody**: every step that closes an open market, except the timeout thread's
    first critical section (which is followed by that thread's `Drop`), and every `Drop` of any clone in
    any state, leaves no waiting worker un-notified. -/
theorem C05_stop_notifies (s s' : MState) (m : Step) (hs : step s m = some s') :
    ((s.isOpen = true ∧ s'.isOpen = false ∧ m ≠ .timeoutFire) ∨ m = .xdrop ∨ ∃ w, m = .drop w) →
    Pc.parked false ∉ s'.pcs := by
  unfold step at hs
  rintro (⟨ho, hc, hm⟩ | rfl | ⟨w, rfl⟩)
  · cases m <;> simp only [stepR] at hs
    case timeoutFire => exact absurd rfl hm
    case xdrop => simp at hs; subst hs; exact not_parkedFalse_mem_notifyAll _
    case drop w =>
      split at hs
      · simp at hs; subst hs
        intro hp; rcases List.mem_or_eq_of_mem_set hp with hp | hp
        · exact not_parkedFalse_mem_notifyAll _ hp
        · cases hp
      · simp at hs
    case popBegin w =>
      split at hs
      · simp [ho] at hs; subst hs
        exact popLoop_close_notifies s w ho hc
      · simp at hs
    case wake w =>
      split at hs
      · simp at hs; subst hs
        exact popLoop_close_notifies _ w ho hc
      · simp at hs
    all_goals
      (repeat' split at hs) <;> simp_all
      all_goals (subst hs; simp_all)
  · simp [stepR] at hs; subst hs; exact not_parkedFalse_mem_notifyAll _
  · simp only [stepR] at hs
    split at hs
    · simp at hs; subst hs
      intro hp; rcases List.mem_or_eq_of_mem_set hp with hp | hp
      · exact not_parkedFalse_mem_notifyAll _ hp
      · cases hp
    · simp at hs

/-- **After a `Drop` nothing is handed out any more**: once any clone has been dropped — in particular once
    any worker has exited — the market is closed, holds no batch, and a worker that wakes up gets the
    empty answer or waits again (and then a colleague is still running: `C05_no_lost_wakeup`), never jobs. -/
theorem C05_stop_after_drop (k tc : Nat) (h : tc ≤ k) (ms : List Step)
    (hd : (mrun (init k tc) ms).dropped = true ∨ Pc.exited ∈ (mrun (init k tc) ms).pcs) :
    (mrun (init k tc) ms).isOpen = false ∧ (mrun (init k tc) ms).batches = []
    ∧ ∀ w s' r, stepR (mrun (init k tc) ms) (.wake w) = some (s', some r) → r = .empty ∨ r = .park := by
  have inv := (minv_mrun ms (minv_init k tc h)).p
  have hd' : (mrun (init k tc) ms).dropped = true := hd.elim id inv.exited
  obtain ⟨hc, hb⟩ := inv.dropped hd'
  refine ⟨hc, hb, ?_⟩
  intro w s' r hs
  simp only [stepR] at hs
  split at hs
  · simp only [popLoop, hb] at hs
    split at hs <;> simp at hs
    · exact Or.inl hs.2.symm
    · exact Or.inr hs.2.symm
  · simp at hs

/-- **Shutdown terminates (measure).** Once a clone has been dropped, every step a worker can still take —
    leave (`drop`: what follows the empty answer of `pop`, the `is_shut_down()` check, a finish condition, a
    panic) or wake up after a notification — strictly decreases the lexicographic measure
    (workers not yet exited, workers waiting, workers notified but not yet woken), which is well-founded.
    With `C05_shutdown_progress` (such a step is enabled as long as a worker is left) every fair schedule
    of the shutdown phase ends with all workers exited. Spurious wake-ups and drops of further clones are
    not measured (they are finitely many in every real run).

    PARTIAL with respect to the property's "always terminates": the full statement — under a fair
    scheduler every run of the composed checker + market on a finite model terminates — also needs
    bounded work while the market is open (each evaluation consumes a job, jobs are created only for
    states inserted into the finite `generated` set): that is the composition with the checker machine
    (`SR.Checker.Full`, lead) and OS fairness (trusted base). -/
theorem C05_shutdown_measure_partial (k tc : Nat) (h : tc ≤ k) (ms : List Step)
    (hd : (mrun (init k tc) ms).dropped = true) (w : Nat) (s' : MState) :
    WellFounded MLt ∧
    (step (mrun (init k tc) ms) (.drop w) = some s' →
      MLt (shutdownMeasure s') (shutdownMeasure (mrun (init k tc) ms))) ∧
    ((mrun (init k tc) ms).pcs[w]? = some (.parked true) → step (mrun (init k tc) ms) (.wake w) = some s' →
      MLt (shutdownMeasure s') (shutdownMeasure (mrun (init k tc) ms))) := by
  have inv := (minv_mrun ms (minv_init k tc h)).p
  exact ⟨mlt_wf, shutdown_drop_decreases _ _ w, shutdown_wake_decreases _ _ w (inv.dropped hd).2⟩

/-- **Shutdown makes progress**: as long as some worker has neither exited nor is running, i.e. is waiting,
    a running worker (whose `drop` step is enabled) or a notified one (whose `wake` step is enabled)
    exists; and a running worker can always leave. -/
theorem C05_shutdown_progress (k tc : Nat) (h : tc ≤ k) (ms : List Step) (w : Nat) (b : Bool)
    (hw : (mrun (init k tc) ms).pcs[w]? = some (.parked b)) :
    (∃ v, (mrun (init k tc) ms).pcs[v]? = some .running ∧ (step (mrun (init k tc) ms) (.drop v)).isSome = true)
    ∨ (∃ v, (mrun (init k tc) ms).pcs[v]? = some (.parked true) ∧ (step (mrun (init k tc) ms) (.wake v)).isSome = true) := by
  rcases C05_no_lost_wakeup k tc h ms with hn | ⟨v, hv⟩ | ⟨v, hv⟩
  · exact absurd ⟨w, b, hw⟩ hn
  · left; exact ⟨v, hv, by simp [step, stepR, hv]⟩
  · right; exact ⟨v, hv, by simp [step, stepR, hv]⟩

/-! ### non-vacuity and what is NOT true -/

-- a run with real sharing: the owner pushes 4 jobs, worker 1 finds nothing and waits, worker 0 takes the
-- batch, evaluates one job generating two, and shares: the market is open and holds a batch for worker 1
example :
    let s := mrun (init 2 2) [.xpush [1, 2, 3, 4] [], .popBegin 0, .popBegin 1, .work 0 1 [5, 6], .split 0 [1]]
    s.isOpen = true ∧ s.batches = [[2, 3]] ∧ s.locs = [[5, 6, 1], []] ∧ s.consumed = [4]
      ∧ s.pcs = [.running, .parked true] ∧ s.openCount = 1 := by decide

-- the woken worker takes the shared batch
example :
    let s := mrun (init 2 2) [.xpush [1, 2, 3, 4] [], .popBegin 0, .popBegin 1, .work 0 1 [5, 6], .split 0 [1], .wake 1]
    s.batches = [] ∧ s.locs = [[5, 6, 1], [2, 3]] ∧ s.pcs = [.running, .running] ∧ s.openCount = 2 := by decide

-- two waiting workers, five jobs: two batches of one job each (`pieces = 3`, `size = 1`), both notified
example :
    let s := mrun (init 3 3) [.xpush [1, 2, 3, 4, 5] [], .popBegin 0, .popBegin 1, .popBegin 2, .split 0 [2, 1]]
    s.batches = [[4], [5]] ∧ s.locs = [[1, 2, 3], [], []] ∧ s.pcs = [.running, .parked true, .parked true] := by
  decide

-- the last active worker closes the market and notifies the waiting one
example :
    let s := mrun (init 2 2) [.popBegin 0, .popBegin 1]
    s.isOpen = false ∧ s.pcs = [.parked true, .running] ∧ s.openCount = 0 := by decide

-- `split_and_push` with more idle workers than jobs shares NOTHING (`size = len / pieces = 0`):
-- 3 threads, two of them waiting, the third holds two jobs and keeps both
example :
    let s := mrun (init 3 3) [.xpush [1, 2] [], .popBegin 0, .popBegin 1, .popBegin 2, .split 0 []]
    s.batches = [] ∧ s.locs = [[1, 2], [], []] ∧ s.pcs = [.running, .parked false, .parked false] := by decide

-- extra `Drop`s make `open_count` smaller than the number of running workers: after the timeout thread's
-- two critical sections and the exit of two workers `is_closed()` is already true although worker 2 is
-- still running (e.g. in the middle of a block): `Checker::is_done()` can be true before `join` returns
example :
    let s := mrun (init 3 3) [.timeoutFire, .xdrop, .drop 0, .drop 1]
    isClosed s = true ∧ s.pcs = [.exited, .exited, .running] ∧ s.openCount = 0 := by decide

-- the draft formulation "once a worker has exited every waiting worker is notified" is NOT an invariant:
-- a worker woken by a `Drop` waits AGAIN (un-notified, in a closed market) as long as `open_count` says
-- that a colleague is still running; it is woken for good by that colleague's `Drop`
-- (`C05_stop_notifies`), which comes at the colleague's next market operation (`C05_stop_propagates`)
example :
    let s := mrun (init 3 3) [.popBegin 2, .drop 0, .wake 2]
    s.isOpen = false ∧ s.pcs = [.exited, .running, .parked false] ∧ s.openCount = 1 := by decide
example :
    let s := mrun (init 3 3) [.popBegin 2, .drop 0, .wake 2, .drop 1, .wake 2]
    s.pcs = [.exited, .exited, .running] ∧ s.openCount = 0
      ∧ stepR s (.popBegin 2) = some (s, some .empty) := by decide

-- in the window between the timeout thread's two critical sections a notified worker may still take a
-- batch (it does not re-read `open` after waking); it stops at its next `is_shut_down()` check
example :
    let s := mrun (init 2 2) [.popBegin 1, .xpush [7] [1], .timeoutFire]
    s.isOpen = false ∧ (stepR s (.wake 1)).map (·.2) = some (some (.got [7])) := by decide

/-! ## checker machine: lead -/

end SR.C05
