import SR.Props.C01
import SR.Props.C02
import SR.Props.C13
/-!
# C19 (on-demand scheduler part)

on_demand.rs is the checker machine with a different way of choosing the next job: `check_fingerprint fp` makes a
worker take exactly the pending job with that fingerprint (a `take i` choice with `frontier[i]` = that job);
`run_to_completion` lets the workers take jobs in FIFO blocks.  Every such behaviour is a choice list, so all
theorems of C01–C03 apply verbatim; the two clauses of the property are stated here.
-/
namespace SR.C19M
open SR SR.Checker

variable {σ κ α : Type} [DecidableEq κ] (P : Params σ κ α)

/-- **targeted evaluation**: asking for a pending job evaluates exactly that job (its path is shown to the visitor,
    it leaves the pending set, a worker starts on it) and nothing else changes — no other state is evaluated,
    generated or dropped.  (Without depth limit; with one, a job at the limit is dropped instead.) -/
theorem C19_on_demand_targeted (hnd : P.cfg.maxDepth = none) (s : St σ κ) (i : Nat) (j : Job σ)
    (hj : s.frontier[i]? = some j) :
    (stepTake P i s).visits = j.path :: s.visits ∧
    (stepTake P i s).frontier = s.frontier.eraseIdx i ∧
    (stepTake P i s).active = s.active ++ [{ job := j, phase := .props 0 false }] ∧
    (stepTake P i s).gen = s.gen ∧ (stepTake P i s).done = s.done ∧ (stepTake P i s).disc = s.disc ∧
    (stepTake P i s).early = s.early := by
  unfold stepTake
  rw [hj]
  simp [hnd]

/-- asking for a fingerprint that is not pending does nothing -/
theorem C19_on_demand_not_pending (s : St σ κ) (i : Nat) (hj : s.frontier[i]? = none) : stepTake P i s = s := by
  unfold stepTake; rw [hj]

/-- **run to completion finishes like BFS**: whatever requests were served before, once the run is complete the
    evaluated states are exactly the reachable ones and the verdicts are the declarative ones — the same as for any
    other exhaustive strategy (C01_exact, C02); and the single-threaded run-to-completion order is the FIFO
    discipline of C13. -/
theorem C19_on_demand_complete (hinj : ∀ a b, P.M.Reach a → P.M.Reach b → P.key a = P.key b → a = b)
    (cs : List Choice) (hq : Quiescent (run P cs)) (he : (run P cs).early = false) :
    (∀ t, P.M.Reach t ↔ t ∈ visitedStates (run P cs)) ∧
    (∀ i pr, P.props[i]? = some pr → pr.exp ≠ .eventually →
      (hasDisc (run P cs).disc i = true ↔ ∃ t, P.M.Reach t ∧ Wit pr t)) := by
  refine ⟨(C01.C01_exact P hinj cs hq he).1, ?_⟩
  intro i pr hpr hexp
  exact C02.C02_verdict_modulo P Eq hinj (fun _ _ _ h1 h2 => h1.trans h2)
    (fun a b hab a' ha' => ⟨a', hab ▸ ha', rfl⟩) cs ⟨hq, Or.inl he⟩ i pr hpr (fun a b hab => by rw [hab]) hexp

/-- the on-demand scheduler (after `run_to_completion`, one worker) obeys the FIFO discipline of C13 -/
theorem C19_on_demand_is_fifo (fuel : Nat) (s : St σ κ) (bl : Nat) :
    FifoRun P s (schedule P .ondemand fuel s bl) := by
  induction fuel generalizing s bl with
  | zero => trivial
  | succ fuel ih =>
    unfold schedule
    cases hn : schedNext P .ondemand s bl with
    | none => trivial
    | some r =>
      obtain ⟨cs, bl'⟩ := r
      simp only
      rw [C13.fifoRun_append]
      refine ⟨?_, ih _ _⟩
      unfold schedNext at hn
      split at hn
      · rename_i a ha
        split at hn
        · split at hn
          · cases hn; exact ⟨⟨rfl, rfl⟩, trivial⟩
          · split at hn
            · cases hn
              refine ⟨rfl, ?_⟩
              simp only [show (Discipline.ondemand == Discipline.ondemand) = true from rfl, if_true]
              exact C13.fifoRun_dropJobs P _ _
            · cases hn; exact ⟨rfl, trivial⟩
        · cases hn; exact ⟨⟨rfl, by decide⟩, trivial⟩
        · cases hn; exact ⟨rfl, trivial⟩
      · rename_i hnone
        have hact : s.active = [] := by
          cases h : s.active with
          | nil => rfl
          | cons x xs => rw [h] at hnone; simp at hnone
        split at hn
        · cases hn
        · rename_i hst
          have hst' : s.stopped = false := by cases h : s.stopped <;> simp_all
          split at hn
          · split at hn
            · cases hn; exact ⟨hact, C13.fifoRun_dropJobs P _ _⟩
            · split at hn
              · cases hn; exact ⟨hact, C13.fifoRun_dropJobs P _ _⟩
              · split at hn
                · cases hn
                · cases hn; trivial
          · split at hn
            · cases hn; trivial
            · cases hn; exact ⟨⟨rfl, hact, hst'⟩, trivial⟩

end SR.C19M
