import SR.Proofs.ActorAdapters
import SR.Proofs.ActorActions
/-!
# C15 — actor adapters are transparent to the actor they wrap

Property theorems only. Model: `SR/Actor/Adapters.lean` — `Actor.wrap` is the one shape all four adapters of the
code have (untag the state, run the wrapped handler with a fresh `Out`, append it, re-tag the state if it came
back `Cow::Owned`); `wrapL`/`wrapR` = `Choice::L/R` in `Choice<A1,A2>`, `wrapOnly` = `Choice<A,Never>`,
`serverOf` = the `Server` arms of `RegisterActor` / `WORegisterActor`; `scripted` = `impl Actor for Vec<(Id,Msg)>`.
`Transparent tag a b`: for EVERY event (start, message, timeout, random choice) `b` on the tagged state gets
the same arguments to `a` and returns `a`'s state change re-tagged and `a`'s commands unchanged. The theorems
quantify over all wrapped actors (any handler functions), all nestings, all systems and all executions.
-/
namespace SR.C15
open SR SR.Actor

variable {σ σ' σ'' η : Type}

/-- **Handlers**: each adapter forwards start, message, timeout and random-choice events unchanged and
returns the wrapped actor's result unchanged (state re-tagged). -/
theorem C15_handlers (a : Actor σ) :
    Transparent (Sum.inl : σ → σ ⊕ σ') a a.wrapL ∧
    (∀ b : Actor σ', Transparent (Sum.inr : σ' → σ ⊕ σ') b b.wrapR) ∧
    Transparent (Sum.inl : σ → σ ⊕ Empty) a a.wrapOnly ∧
    Transparent RegSt.server a a.serverOf :=
  ⟨transparent_wrap _ _ _ a (fun _ => rfl), fun b => transparent_wrap _ _ _ b (fun _ => rfl),
   transparent_wrap _ _ _ a (fun _ => rfl), transparent_wrap _ _ _ a (fun _ => rfl)⟩

/-- the general form: any adapter of the common shape whose `untag` inverts its `tag` -/
theorem C15_handlers_wrap (tag : σ → σ') (untag : σ' → Option σ) (miss : HRes σ') (a : Actor σ)
    (h : ∀ s, untag (tag s) = some s) : Transparent tag a (a.wrap tag untag miss) :=
  transparent_wrap tag untag miss a h

/-- **Nesting**: transparency composes, so `Choice` in any position and any nesting with the register adapters
is transparent (e.g. position 2 of `choice![A,B,C]` is `wrapR ∘ wrapR ∘ wrapOnly`). -/
theorem C15_nest {t1 : σ → σ'} {t2 : σ' → σ''} {a : Actor σ} {b : Actor σ'} {c : Actor σ''}
    (h1 : Transparent t1 a b) (h2 : Transparent t2 b c) : Transparent (t2 ∘ t1) a c :=
  transparent_comp h1 h2

/-- an instance: a server under `RegisterActor::Server` in position 1 of a three-way `Choice` -/
theorem C15_nest_example (a : Actor σ) :
    Transparent (fun s => (Sum.inr (Sum.inl (RegSt.server s)) : σ' ⊕ (RegSt σ ⊕ σ''))) a
      (a.serverOf.wrapL.wrapR) :=
  C15_nest (C15_nest (C15_handlers (σ' := Empty) a).2.2.2 (C15_handlers (σ' := σ'') a.serverOf).1)
    (transparent_wrap Sum.inr Sum.getRight? .panic _ (fun _ => rfl))

/-- **Step**: in a system whose actors are wrapped (each with its own tag), every action from a lifted state
does exactly what it does in the unwrapped system, lifted — including being ignored and panicking. -/
theorem C15_step {tag : Nat → σ → σ'} {sys : ActorSys σ η} {sys' : ActorSys σ' η} (hw : SysWrapped tag sys sys')
    (st : St σ η) (a : Action) :
    step sys' (st.lift tag) a = (step sys st a).map (St.lift tag) ∧
    actions sys' (st.lift tag) = actions sys st :=
  ⟨step_lift hw st a, actions_lift hw st⟩

/-- wrapping every actor of a system with adapters of the common shape gives a wrapped system -/
theorem C15_wrapped_system (tag : Nat → σ → σ') (untag : Nat → σ' → Option σ) (miss : Nat → HRes σ')
    (sys : ActorSys σ η) (h : ∀ i s, untag i (tag i s) = some s) :
    SysWrapped tag sys (sys.mapActors (fun i a => a.wrap (tag i) (untag i) (miss i))) :=
  sysWrapped_mapActors tag sys _ (fun i => transparent_wrap _ _ _ _ (h i))

/-- **Isomorphism**: `lift` maps the reachable states of the unwrapped system one-to-one onto the reachable
states of the wrapped system, and commutes with initial states, enabled actions and steps (`C15_step`). -/
theorem C15_iso {tag : Nat → σ → σ'} {sys : ActorSys σ η} {sys' : ActorSys σ' η} (hw : SysWrapped tag sys sys')
    (inB : St σ η → Bool) (inB' : St σ' η → Bool) (hB : ∀ st, inB' (st.lift tag) = inB st)
    (hinj : ∀ i s t, tag i s = tag i t → s = t) :
    (∀ st', (sys'.toSys inB').Reach st' ↔ ∃ st, (sys.toSys inB).Reach st ∧ st' = st.lift tag) ∧
    (∀ a b : St σ η, a.lift tag = b.lift tag → a = b) := by
  refine ⟨fun st' => ⟨?_, ?_⟩, lift_injective hinj⟩
  · intro h
    induction h with
    | init hi =>
      simp only [Sys.initB, ActorSys.toSys, init_eq_specInit, List.mem_filter, Option.toList,
        List.mem_singleton] at hi
      refine ⟨specInit sys, Sys.Reach.init ?_, by rw [hi.1, specInit_lift hw]⟩
      simp only [Sys.initB, ActorSys.toSys, init_eq_specInit, List.mem_filter, Option.toList, List.mem_singleton,
        true_and]
      rw [← hB, ← specInit_lift hw, ← hi.1]; exact hi.2
    | @step s' t' _ hs ih =>
      obtain ⟨s, hr, rfl⟩ := ih
      obtain ⟨⟨a, hmem, ha⟩, hb⟩ := Sys.mem_succB.1 hs
      have hst : step sys' (s.lift tag) a = .next t' := toOption_eq_some.1 ha
      rw [step_lift hw] at hst
      cases hs0 : step sys s a with
      | panic => rw [hs0] at hst; cases hst
      | ignored => rw [hs0] at hst; cases hst
      | next t =>
        rw [hs0] at hst
        simp only [Outcome.map, Outcome.next.injEq] at hst
        subst hst
        refine ⟨t, Sys.Reach.step hr (Sys.mem_succB.2 ⟨⟨a, ?_, ?_⟩, ?_⟩), rfl⟩
        · have : a ∈ actions sys' (s.lift tag) := hmem
          rwa [actions_lift hw] at this
        · exact toOption_eq_some.2 hs0
        · have : inB' (t.lift tag) = true := hb
          rwa [hB] at this
  · rintro ⟨st, hr, rfl⟩
    induction hr with
    | init hi =>
      simp only [Sys.initB, ActorSys.toSys, init_eq_specInit, List.mem_filter, Option.toList,
        List.mem_singleton] at hi
      apply Sys.Reach.init
      simp only [Sys.initB, ActorSys.toSys, init_eq_specInit, List.mem_filter, Option.toList, List.mem_singleton]
      rw [hi.1]
      exact ⟨(specInit_lift hw).symm, by rw [hB, ← hi.1]; exact hi.2⟩
    | @step s t _ hs ih =>
      obtain ⟨⟨a, hmem, ha⟩, hb⟩ := Sys.mem_succB.1 hs
      have hst : step sys s a = .next t := toOption_eq_some.1 ha
      refine Sys.Reach.step ih (Sys.mem_succB.2 ⟨⟨a, ?_, ?_⟩, ?_⟩)
      · show a ∈ actions sys' (s.lift tag)
        rw [actions_lift hw]; exact hmem
      · apply toOption_eq_some.2
        rw [step_lift hw, hst]; rfl
      · show inB' (t.lift tag) = true
        rw [hB]; exact hb

/-! ## the scripted client -/

/-- run the scripted client: `on_start`, then one `on_msg` per received message `(src, msg)`; returns the final
state and all commands emitted, in order -/
def runClient (script : List (Nat × Nat)) (id : Nat) (msgs : List (Nat × Nat)) : Nat × List Cmd :=
  msgs.foldl (fun (acc : Nat × List Cmd) sm =>
    match (scripted script).msg id acc.1 sm.1 sm.2 with
    | .ok ns cmds => (ns.getD acc.1, acc.2 ++ cmds)
    | .panic => acc) ((scripted script).start id)

/-- **Scripted client**: after `k` received messages (whatever they are and whoever sent them) the client has
sent exactly the first `min (k+1) len` entries of its script, in order, one per event, and nothing else; its
state is that number. Its timeout and random handlers do nothing. -/
theorem C15_vec_client (script : List (Nat × Nat)) (id : Nat) (msgs : List (Nat × Nat)) :
    runClient script id msgs =
      (min (msgs.length + 1) script.length,
       (script.take (min (msgs.length + 1) script.length)).map (fun p => Cmd.send p.1 p.2)) ∧
    (∀ s t, (scripted script).timeout id s t = .ok none []) ∧
    (∀ s r, (scripted script).random id s r = .ok none []) := by
  refine ⟨?_, fun _ _ => rfl, fun _ _ => rfl⟩
  have key : ∀ (msgs : List (Nat × Nat)) (k : Nat),
      msgs.foldl (fun (acc : Nat × List Cmd) sm =>
        match (scripted script).msg id acc.1 sm.1 sm.2 with
        | .ok ns cmds => (ns.getD acc.1, acc.2 ++ cmds)
        | .panic => acc)
        (min k script.length, (script.take (min k script.length)).map (fun p => Cmd.send p.1 p.2)) =
      (min (k + msgs.length) script.length,
       (script.take (min (k + msgs.length) script.length)).map (fun p => Cmd.send p.1 p.2)) := by
    intro msgs
    induction msgs with
    | nil => intro k; rfl
    | cons m ms ih =>
      intro k
      rw [List.foldl_cons]
      have hstep : (match (scripted script).msg id (min k script.length) m.1 m.2 with
          | .ok ns cmds => (ns.getD (min k script.length),
              (script.take (min k script.length)).map (fun p => Cmd.send p.1 p.2) ++ cmds)
          | .panic => (min k script.length, (script.take (min k script.length)).map (fun p => Cmd.send p.1 p.2))) =
          (min (k + 1) script.length, (script.take (min (k + 1) script.length)).map (fun p => Cmd.send p.1 p.2)) := by
        simp only [scripted]
        by_cases hlt : k < script.length
        · have h1 : min k script.length = k := by omega
          have h2 : min (k + 1) script.length = k + 1 := by omega
          rw [h1, h2, List.getElem?_eq_getElem hlt]
          simp only [Option.getD_some, Prod.mk.injEq, true_and]
          simp only [List.map_take, List.append_cancel_left_eq]
          rw [List.take_add_one]
          simp [hlt]
        · have h1 : min k script.length = script.length := by omega
          have h2 : min (k + 1) script.length = script.length := by omega
          rw [h1, h2, List.getElem?_eq_none (Nat.le_refl _)]
          simp
      rw [hstep, ih (k + 1)]
      simp only [List.length_cons]
      have : k + 1 + ms.length = k + (ms.length + 1) := by omega
      rw [this]
  unfold runClient
  have hstart : (scripted script).start id =
      (min 1 script.length, (script.take (min 1 script.length)).map (fun p => Cmd.send p.1 p.2)) := by
    cases script with
    | nil => simp [scripted]
    | cons p ps => simp [scripted]
  rw [hstart, key msgs 1]
  have : 1 + msgs.length = msgs.length + 1 := by omega
  rw [this]

/-! ## the hypotheses are satisfiable -/

/-- an actor that uses every kind of event -/
def exActor : Actor Nat where
  start _ := (0, [.setTimer 1, .chooseRandom 0 [1, 2]])
  msg _ s src m := .ok (some (s + m)) [.send src m]
  timeout _ s t := .ok (some (s + 10 * t)) [.setTimer t]
  random _ s r := .ok (some (s + 100 * r)) []

example : (exActor.wrapL (σ' := Nat)).random 0 (Sum.inl 5) 2 = .ok (some (Sum.inl 205)) [] := rfl
example : (exActor.wrapL (σ' := Nat)).msg 0 (Sum.inr 5) 1 2 = .panic := rfl
example : exActor.serverOf.timeout 0 (RegSt.client none 0) 1 = .ok none [] := rfl
example : runClient [(1, 7), (1, 8)] 0 [(1, 0), (1, 0), (1, 0)] = (2, [.send 1 7, .send 1 8]) := by decide

end SR.C15
