/-! # C15 — property theorems (stub: nothing stated yet) -/
namespace SR.C15
end SR.C15
