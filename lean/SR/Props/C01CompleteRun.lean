import SR.Proofs.CompleteRun
import SR.Props.C01
import SR.Props.C02
import SR.Props.C13
import SR.Props.OracleAdequacy
import SR.Props.OracleAudit
/-!
# `completeRun` ⇒ `Completed` (checker-group oracles), and the `best` fold of `o-chk c13`

Property theorems only; helper lemmas in `SR/Proofs/CompleteRun.lean`.

`Drv/Chk.lean`: `completeRun c o` decides from the case's configuration and the FINAL discoveries of an observed run that
no early-exit condition can have fired; `oracleC01`, `oracleC02`, `oracleC11`, `o-chk-sym` then demand exhaustiveness.
`notes/oracles.md` listed this step as `argued` ("all conditions are monotone in the discoveries").  Here it is proved for
every run of the checker machine (`SR/Checker/Machine.lean`, any choice list = any schedule, interleaving, race):

* `C01_discoveries_grow`, `C12_finish_matches_mono`, `C12_all_discovered_mono`: the three monotonicity facts.
  FINDING (harmless for the guard): `Finish.matches .all` is NOT monotone in an arbitrary name list — it compares two lengths,
  so a foreign name un-matches it (`C12_finish_all_not_mono_foreign`); it is monotone among lists of property indices, which
  is what the machine's discoveries are, and `completeRun` tests "all discovered" by the same length expression anyway.
* `C01_complete_run_no_early`: guard true on the final discoveries ⇒ at NO point of the run was a job dropped unexpanded,
  a worker stopped, the finish condition matched, everything discovered, or any non-panic stop reason enabled.
  The guard cannot see a panic of model code or a timeout: both are hypotheses (`parseCfg` always sets `timeout := false`;
  the driver answers `implementation-panicked` before any oracle runs).  Without the no-panic hypothesis:
  `C01_complete_run_stop_is_panic`.
* `C01_complete_run_exact`, `C02_complete_run_completed`, `C02_complete_run_always`, `C02_complete_run_sometimes`: hence the
  hypotheses of `C01_exact` / `C02_always` / `C02_sometimes` hold for a run that has terminated (`Quiescent`).
* `C01_complete_run_oracle_lines`, `C02_complete_run_oracle_passes`: the lines of `oracleC01` / the whole of `oracleC02` that
  are guarded by `completeRun` are satisfied by every observation (`Observes`) of such a run of the model: the guard never
  makes the oracle demand more than the theorems give.
* `C13_oracle_best`, `C13_oracle_best_test`, `C13_oracle_best_run`: the `best` fold of `oracleC13`.
-/
namespace SR.CCompleteRun
open SR SR.Checker SR.Drv.Chk

/-! ## the guard -/

/-- `completeRun`, as a proposition on the list of discovered names -/
def Guard (c : Case) (names : List Nat) : Prop :=
  c.cfg.maxDepth = none ∧ c.cfg.target = none ∧ c.finish.matches c.props names = false ∧
  names.eraseDups.length ≠ c.props.length

/-- `Guard` is the exact expression of `completeRun` -/
theorem C01_complete_run_guard (c : Case) (o : Obs) : completeRun c o = true ↔ Guard c (o.disc.map (·.1)) := by
  simp [completeRun, Guard, Option.isNone_iff_eq_none, and_assoc]

/-! ## monotonicity -/

section
variable {σ κ α : Type} [DecidableEq κ] (P : Params σ κ α)

/-- **discoveries only grow**: a step of the machine never removes a discovered name (a later insert for the same property
    replaces the path, not the name) -/
theorem C01_discoveries_grow (ch : Choice) (s : St σ κ) :
    discNames s.disc ⊆ discNames (step P ch s).disc ∧ ∀ k, hasDisc s.disc k = true → hasDisc (step P ch s).disc k = true :=
  ⟨discNames_subset_step ch s, (mono_step (P := P) ch s).disc⟩

/-- along a run: the discoveries after a prefix are among the final ones -/
theorem C01_discoveries_grow_run (pre post : List Choice) :
    discNames (run P pre).disc ⊆ discNames (run P (pre ++ post)).disc := by
  rw [run_append]; exact discNames_subset_runFrom _ _

/-- **"all discovered" is monotone** along a run -/
theorem C12_all_discovered_mono (pre post : List Choice) (h : allDiscovered P (run P pre) = true) :
    allDiscovered P (run P (pre ++ post)) = true := by
  rw [run_append]; exact allDiscovered_mono (mono_runFrom (P := P) _ post).disc h

/-- the machine's "all discovered" is the driver's length test on the discovered names of a run -/
theorem C12_all_discovered_iff_length (cs : List Choice) :
    allDiscovered P (run P cs) = true ↔ (discNames (run P cs).disc).eraseDups.length = P.props.length :=
  allDiscovered_iff_length cs

end

/-- **`Finish.matches` is monotone in the discovery set**, for every constructor, among lists of property indices
    (the discovered names of every run are such a list: `C03_known_property`) -/
theorem C12_finish_matches_mono (f : Finish) (props : List GProp) (d d' : List Nat) (hs : d ⊆ d')
    (hb : ∀ x ∈ d', x < props.length) (h : f.matches props d = true) : f.matches props d' = true :=
  Finish.matches_mono f props hs hb h

/-- for every constructor but `all` no hypothesis on the names is needed -/
theorem C12_finish_matches_mono_ne_all (f : Finish) (props : List GProp) (d d' : List Nat) (hs : d ⊆ d')
    (hf : ∀ (_ : f = .all), False) (h : f.matches props d = true) : f.matches props d' = true :=
  Finish.matches_mono_of_ne_all f props hs hf h

/-- FINDING: `all` is NOT monotone in an arbitrary name list (one property, discoveries `[0]` then `[0, 7]`): the hypothesis
    `hb` of `C12_finish_matches_mono` is necessary.  Harmless for `completeRun`: its last conjunct is the same length test. -/
theorem C12_finish_all_not_mono_foreign :
    Finish.matches .all [⟨.always, []⟩] [0] = true ∧ Finish.matches .all [⟨.always, []⟩] [0, 7] = false ∧
    ([0] : List Nat) ⊆ [0, 7] :=
  ⟨Finish.matches_all_not_mono.1, Finish.matches_all_not_mono.2, by simp⟩

example : Finish.matches .anyF [⟨.always, []⟩, ⟨.sometimes, []⟩] [0] = true ∧ ([0] : List Nat) ⊆ [1, 0] ∧
    (∀ x ∈ ([1, 0] : List Nat), x < 2) := by decide

/-! ## no early exit along the run -/

theorem C01_case_props_length (c : Case) : c.params.props.length = c.props.length := by simp [Case.params]

theorem C12_finish_mono_case (c : Case) : FinishMono c.params := by
  intro d d' hs hb h
  exact Finish.matches_mono c.finish c.props hs (by simpa [Case.params] using hb) h

/-- without the no-panic hypothesis: if the guard holds on the final discoveries, then at every point of the run a set stop
    flag is due to a `panic` choice earlier in the run, and `early` is only ever set after such a stop -/
theorem C01_complete_run_stop_is_panic (c : Case) (hto : c.cfg.timeout = false) (pre post : List Choice)
    (hg : Guard c (discNames (run c.params (pre ++ post)).disc)) :
    ((run c.params pre).stopped = true → ∃ a b, pre = a ++ Choice.stop .panic :: b) ∧
    ((run c.params pre).early = true → (run c.params pre).stopped = true) := by
  obtain ⟨hd, ht, hfin, hall⟩ := hg
  exact ⟨stopped_is_panic_of_final (C12_finish_mono_case c) ht hto pre post hfin,
    early_only_stopped_of_final hd pre post (by rw [C01_case_props_length]; exact hall)⟩

/-- **`completeRun` on the FINAL discoveries ⇒ no early-exit condition fired anywhere along the run.**
    For every run `cs` of the machine of case `c` (no timeout configured, model code does not panic): if `c` has no depth limit
    and no target and the final discoveries neither match the finish condition nor cover all properties, then after every
    prefix of the run: no job was dropped unexpanded, no worker had left its loop, not everything was discovered, the finish
    condition did not match, and no stop reason other than a panic was enabled. -/
theorem C01_complete_run_no_early (c : Case) (hto : c.cfg.timeout = false) (cs : List Choice)
    (hnp : ∀ ch ∈ cs, ch ≠ Choice.stop .panic)
    (hg : Guard c (discNames (run c.params cs).disc)) :
    ∀ pre post, cs = pre ++ post →
      (run c.params pre).early = false ∧ (run c.params pre).stopped = false ∧
      allDiscovered c.params (run c.params pre) = false ∧
      c.finish.matches c.props (discNames (run c.params pre).disc) = false ∧
      ∀ why, why ≠ Why.panic → stopEnabled c.params why (run c.params pre) = false := by
  intro pre post hcs
  subst hcs
  obtain ⟨h1, h2⟩ := C01_complete_run_stop_is_panic c hto pre post hg
  obtain ⟨hd, ht, hfin, hall⟩ := hg
  have hst : (run c.params pre).stopped = false := by
    cases hs : (run c.params pre).stopped with
    | false => rfl
    | true =>
      obtain ⟨a, b, hab⟩ := h1 hs
      exact absurd rfl (hnp (Choice.stop .panic) (by rw [hab]; simp))
  have hea : (run c.params pre).early = false := by
    cases he : (run c.params pre).early with
    | false => rfl
    | true => rw [h2 he] at hst; cases hst
  have hnall : allDiscovered c.params (run c.params pre) = false := by
    cases ha : allDiscovered c.params (run c.params pre) with
    | false => rfl
    | true =>
      have := (C12_all_discovered_iff_length c.params _).1 (C12_all_discovered_mono c.params pre post ha)
      rw [C01_case_props_length] at this
      exact absurd this hall
  have hnfin : c.finish.matches c.props (discNames (run c.params pre).disc) = false := by
    cases hm : c.finish.matches c.props (discNames (run c.params pre).disc) with
    | false => rfl
    | true =>
      have := Finish.matches_mono c.finish c.props (C01_discoveries_grow_run c.params pre post)
        (by have := discNames_lt_run (P := c.params) (pre ++ post); simpa [Case.params] using this) hm
      rw [hfin] at this; cases this
  refine ⟨hea, hst, hnall, hnfin, ?_⟩
  intro why hw
  cases why with
  | panic => exact absurd rfl hw
  | timeout => exact hto
  | target =>
    have : c.params.cfg.target = none := ht
    simp [stopEnabled, this]
  | finish => exact hnfin

/-- the same for ANY parameters with a monotone finish condition — in particular for the symmetry-reduced machine of
    `chk-sym` / `o-chk-sym`, `{ c.params with key := rep }` (`C12_finish_mono_case_key`): the guard does not depend on the key -/
theorem C01_complete_run_no_early_any_key {κ : Type} [DecidableEq κ] (P : Params Nat κ Nat) (hmono : FinishMono P)
    (hd : P.cfg.maxDepth = none) (ht : P.cfg.target = none) (hto : P.cfg.timeout = false) (cs : List Choice)
    (hnp : ∀ ch ∈ cs, ch ≠ Choice.stop .panic)
    (hfin : P.finishMatches (discNames (run P cs).disc) = false)
    (hall : (discNames (run P cs).disc).eraseDups.length ≠ P.props.length) :
    ∀ pre post, cs = pre ++ post → (run P pre).early = false ∧ (run P pre).stopped = false := by
  intro pre post hcs
  subst hcs
  have hst : (run P pre).stopped = false := by
    cases hs : (run P pre).stopped with
    | false => rfl
    | true =>
      obtain ⟨a, b, hab⟩ := stopped_is_panic_of_final hmono ht hto pre post hfin hs
      exact absurd rfl (hnp (Choice.stop .panic) (by rw [hab]; simp))
  refine ⟨?_, hst⟩
  cases he : (run P pre).early with
  | false => rfl
  | true => rw [early_only_stopped_of_final hd pre post hall he] at hst; cases hst

theorem C12_finish_mono_case_key {κ : Type} (c : Case) (k : Nat → κ) : FinishMono { c.params with key := k } := by
  intro d d' hs hb h
  exact Finish.matches_mono c.finish c.props hs (by simpa [Case.params] using hb) h

/-! ## a terminated run with the guard is a completed run -/

/-- **`completeRun` ⇒ the hypotheses and conclusion of `C01_exact`**: a run that terminated (`Quiescent`) and passes the guard
    evaluated exactly the reachable in-boundary states, and generated each exactly once (`key = id` in the driver's cases,
    so there is no collision hypothesis). -/
theorem C01_complete_run_exact (c : Case) (hto : c.cfg.timeout = false) (cs : List Choice)
    (hnp : ∀ ch ∈ cs, ch ≠ Choice.stop .panic)
    (hg : Guard c (discNames (run c.params cs).disc)) (hq : Quiescent (run c.params cs)) :
    (run c.params cs).early = false ∧
    (∀ t, c.g.toSys.Reach t ↔ t ∈ visitedStates (run c.params cs)) ∧
    (run c.params cs).gen.Nodup ∧ (∀ k, k ∈ (run c.params cs).gen ↔ c.g.toSys.Reach k) := by
  have he := (C01_complete_run_no_early c hto cs hnp hg cs [] (by simp)).1
  obtain ⟨h1, h2, h3⟩ := C01.C01_exact c.params (fun _ _ _ _ h => h) cs hq he
  refine ⟨he, h1, h2, ?_⟩
  intro k
  rw [h3 k]
  constructor
  · rintro ⟨t, ht, rfl⟩; exact ht
  · intro hk; exact ⟨k, hk, rfl⟩

/-- **`completeRun` ⇒ `Completed`** (the hypothesis of `C02_always`, `C02_sometimes`, `C02_assert`), through its first
    disjunct: the run was exhaustive -/
theorem C02_complete_run_completed (c : Case) (hto : c.cfg.timeout = false) (cs : List Choice)
    (hnp : ∀ ch ∈ cs, ch ≠ Choice.stop .panic)
    (hg : Guard c (discNames (run c.params cs).disc)) (hq : Quiescent (run c.params cs)) :
    C02.Completed c.params (run c.params cs) :=
  ⟨hq, Or.inl (C01_complete_run_no_early c hto cs hnp hg cs [] (by simp)).1⟩

theorem C01_case_props_getElem? (c : Case) (i : Nat) (pr : GProp) (hpr : c.props[i]? = some pr) :
    c.params.props[i]? = some pr.toProp := by
  simp [Case.params, hpr]

/-- hence the always-verdict of such a run is exact -/
theorem C02_complete_run_always (c : Case) (hto : c.cfg.timeout = false) (cs : List Choice)
    (hnp : ∀ ch ∈ cs, ch ≠ Choice.stop .panic)
    (hg : Guard c (discNames (run c.params cs).disc)) (hq : Quiescent (run c.params cs))
    (i : Nat) (pr : GProp) (hpr : c.props[i]? = some pr) (hexp : pr.exp = .always) :
    hasDisc (run c.params cs).disc i = true ↔ ∃ t, c.g.toSys.Reach t ∧ pr.tbl.getD t false = false :=
  C02.C02_always c.params (fun _ _ _ _ h => h) cs (C02_complete_run_completed c hto cs hnp hg hq) i pr.toProp
    (C01_case_props_getElem? c i pr hpr) hexp

/-- hence the sometimes-verdict of such a run is exact -/
theorem C02_complete_run_sometimes (c : Case) (hto : c.cfg.timeout = false) (cs : List Choice)
    (hnp : ∀ ch ∈ cs, ch ≠ Choice.stop .panic)
    (hg : Guard c (discNames (run c.params cs).disc)) (hq : Quiescent (run c.params cs))
    (i : Nat) (pr : GProp) (hpr : c.props[i]? = some pr) (hexp : pr.exp = .sometimes) :
    hasDisc (run c.params cs).disc i = true ↔ ∃ t, c.g.toSys.Reach t ∧ pr.tbl.getD t false = true :=
  C02.C02_sometimes c.params (fun _ _ _ _ h => h) cs (C02_complete_run_completed c hto cs hnp hg hq) i pr.toProp
    (C01_case_props_getElem? c i pr hpr) hexp

/-! ## the guarded oracle lines, on an observation of the model's run -/

/-- `o` is what the harness prints of the final state `s` (`showSt`): visited paths oldest first, `unique_state_count`, and the
    discoveries in any order (`showSt` sorts them by property index) -/
structure Observes (o : Obs) (s : St Nat Nat) : Prop where
  visits : o.visits = s.visits.reverse
  uniq : o.uniq = s.gen.length
  disc : (o.disc.map (·.1)).Perm (discNames s.disc)

/-- the observation `showSt` prints -/
def obsOf (s : St Nat Nat) : Obs :=
  { visits := s.visits.reverse, uniq := s.gen.length, count := s.stateCount, depth := s.maxDepth,
    disc := s.disc.mergeSort (fun a b => a.1 ≤ b.1) }

theorem C01_observes_obsOf (s : St Nat Nat) : Observes (obsOf s) s :=
  ⟨rfl, rfl, (List.mergeSort_perm _ _).map _⟩

/-- the same with the discoveries in the machine's order -/
def obsRaw (s : St Nat Nat) : Obs :=
  { visits := s.visits.reverse, uniq := s.gen.length, count := s.stateCount, depth := s.maxDepth, disc := s.disc }

theorem C01_observes_obsRaw (s : St Nat Nat) : Observes (obsRaw s) s := ⟨rfl, rfl, List.Perm.refl _⟩

/-- the guard reads the discovered names as a set: it is the same on the observation and on the machine state -/
theorem C01_complete_run_guard_of_observes (c : Case) (cs : List Choice) (o : Obs) (ho : Observes o (run c.params cs))
    (hc : completeRun c o = true) : Guard c (discNames (run c.params cs).disc) := by
  obtain ⟨hd, ht, hfin, hall⟩ := (C01_complete_run_guard c o).1 hc
  have hnd := discNodup_run (P := c.params) cs
  have hnd' : (o.disc.map (·.1)).Nodup := ho.disc.nodup_iff.2 hnd
  refine ⟨hd, ht, ?_, ?_⟩
  · rw [← Finish.matches_perm c.finish c.props ho.disc hnd']; exact hfin
  · rw [eraseDups_of_nodup _ hnd, ← ho.disc.length_eq, ← eraseDups_of_nodup _ hnd']; exact hall

/-- **the two lines of `oracleC01` guarded by `completeRun` hold for every observation of a terminated run of the model**:
    `reachable-state-not-evaluated` and `unique-count-not-reachable-size` are never raised against it -/
theorem C01_complete_run_oracle_lines (c : Case) (hwf : c.g.WF) (hto : c.cfg.timeout = false) (cs : List Choice)
    (hnp : ∀ ch ∈ cs, ch ≠ Choice.stop .panic) (hq : Quiescent (run c.params cs))
    (o : Obs) (ho : Observes o (run c.params cs)) (hc : completeRun c o = true) :
    c.g.reachList.all (o.visits.map lastOf).contains = true ∧ (o.uniq == c.g.reachList.length) = true := by
  have hg := C01_complete_run_guard_of_observes c cs o ho hc
  obtain ⟨_, hreach, hnd, hgen⟩ := C01_complete_run_exact c hto cs hnp hg hq
  obtain ⟨hrl, hrnd⟩ := COracle.C13_oracle_reach c.g hwf
  constructor
  · rw [List.all_eq_true]
    intro t ht
    have hv := (hreach t).1 ((hrl t).1 ht)
    simp only [visitedStates, List.mem_filterMap] at hv
    obtain ⟨p, hp, hl⟩ := hv
    simp only [List.contains_eq_mem, decide_eq_true_eq, List.mem_map]
    refine ⟨p, by rw [ho.visits]; exact List.mem_reverse.2 hp, ?_⟩
    simp [lastOf, hl]
  · rw [beq_iff_eq, ho.uniq]
    have h1 := List.Nodup.length_le_of_subset hnd (fun k hk => (hrl k).2 ((hgen k).1 hk))
    have h2 := List.Nodup.length_le_of_subset hrnd (fun k hk => (hgen k).2 ((hrl k).1 hk))
    omega

/-- **`oracleC02` passes every observation of a terminated run of the model** (all its lines are guarded by `completeRun`) -/
theorem C02_complete_run_oracle_passes (c : Case) (hwf : c.g.WF) (hto : c.cfg.timeout = false) (cs : List Choice)
    (hnp : ∀ ch ∈ cs, ch ≠ Choice.stop .panic) (hq : Quiescent (run c.params cs))
    (o : Obs) (ho : Observes o (run c.params cs)) : oracleC02 c o = [] := by
  unfold oracleC02
  cases hc : completeRun c o with
  | false => rfl
  | true =>
    have hg := C01_complete_run_guard_of_observes c cs o ho hc
    have hmem : ∀ i, (o.disc.map (·.1)).contains i = hasDisc (run c.params cs).disc i := by
      intro i
      rw [Bool.eq_iff_iff, ← mem_discNames_iff]
      simp only [List.contains_eq_mem, decide_eq_true_eq]
      exact ho.disc.mem_iff
    simp only [Bool.not_true, Bool.false_eq_true, if_false]
    rw [List.flatMap_eq_nil_iff]
    intro i _
    cases hpr : c.props[i]? with
    | none => rfl
    | some pr =>
      simp only []
      cases hexp : pr.exp with
      | eventually => rfl
      | always =>
        simp only []
        rw [if_pos]
        rw [beq_iff_eq, hmem i, Bool.eq_iff_iff, C02_complete_run_always c hto cs hnp hg hq i pr hpr hexp,
          COracleAudit.C02_oracle_reach_any c.g hwf]
        simp
      | sometimes =>
        simp only []
        rw [if_pos]
        rw [beq_iff_eq, hmem i, Bool.eq_iff_iff, C02_complete_run_sometimes c hto cs hnp hg hq i pr hpr hexp,
          COracleAudit.C02_oracle_reach_any c.g hwf]

/-! ### non-vacuity: a 4-state graph, an always-property that holds and a sometimes-property with a witness; finish condition
`AnyFailures`.  The BFS scheduler terminates, one of two properties is discovered, the guard holds. -/

def noPanic (cs : List Choice) : Bool := cs.all fun ch => match ch with | .stop .panic => false | _ => true

theorem C01_noPanic_iff (cs : List Choice) (h : noPanic cs = true) : ∀ ch ∈ cs, ch ≠ Choice.stop .panic := by
  intro ch hch he
  have := List.all_eq_true.1 h ch hch
  rw [he] at this
  cases this

def exCase : Case :=
  { g := { n := 4, init := [0], adj := [[some 1, some 2], [some 3], [some 3, some 0], []], bnd := [true, true, true, true] },
    props := [⟨.always, [true, true, true, true]⟩, ⟨.sometimes, [false, false, true, false]⟩],
    cfg := {}, finish := .anyF }

def exChoices : List Choice := schedule exCase.params .bfs 120 (init exCase.params.M exCase.params.props exCase.params.key) blockSize

theorem C01_complete_run_ex : exCase.cfg.timeout = false ∧ noPanic exChoices = true ∧
    (run exCase.params exChoices).frontier.length = 0 ∧ (run exCase.params exChoices).active.length = 0 ∧
    completeRun exCase (obsRaw (run exCase.params exChoices)) = true ∧
    discNames (run exCase.params exChoices).disc = [1] ∧ decide exCase.g.WF = true := by decide

/-- the hypotheses of `C01_complete_run_no_early` / `_exact` / `C02_complete_run_*` / the oracle-line theorems hold for it -/
example : (∀ ch ∈ exChoices, ch ≠ Choice.stop .panic) ∧ Guard exCase (discNames (run exCase.params exChoices).disc) ∧
    Quiescent (run exCase.params exChoices) ∧ exCase.g.WF :=
  ⟨C01_noPanic_iff _ C01_complete_run_ex.2.1,
   C01_complete_run_guard_of_observes _ _ _ (C01_observes_obsRaw _) C01_complete_run_ex.2.2.2.2.1,
   ⟨List.length_eq_zero_iff.1 C01_complete_run_ex.2.2.1, List.length_eq_zero_iff.1 C01_complete_run_ex.2.2.2.1⟩,
   of_decide_eq_true C01_complete_run_ex.2.2.2.2.2.2⟩

/-! ## the `best` fold of `oracleC13` -/

/-- the witness test of `oracleC13` for a property that is not `eventually` -/
def c13Wit (pr : GProp) : Nat → Bool :=
  fun s => if pr.exp == .always then !pr.tbl.getD s false else pr.tbl.getD s false

/-- the fold `best` of `oracleC13` -/
def c13Best (g : Graph) (pr : GProp) (p : List Nat) : Nat :=
  ((g.reachList.filter (c13Wit pr)).filterMap g.distOf).foldl (fun m d => min m d) p.length

/-- `c13Wit` / `c13Best` are literally the expressions of the discovery lines of `oracleC13` -/
theorem C13_oracle_best_handle (c : Case) (o : Obs) :
    ∃ pre : List String, oracleC13 c "bfs" o = pre ++
      o.disc.flatMap fun (i, p) =>
        match c.props[i]? with
        | none => []
        | some pr =>
          if pr.exp == .eventually then [] else
          if p.length - 1 ≤ c13Best c.g pr p then [] else [s!"bfs-discovery-not-shortest-p{i}"] :=
  ⟨_, rfl⟩

/-- **the fold returns the minimum**: `best = min (start, every element)`: it is below the start value and every element, it
    is one of them, it IS `List.min?` of `start :: l`; and in terms of the list alone: `l.min? = none` iff `l` is empty (then
    `best = start`), otherwise `best = min start m` for the minimum `m` of `l`. -/
theorem C13_oracle_best (l : List Nat) (a : Nat) :
    (l.foldl (fun m d => min m d) a ≤ a) ∧ (∀ d ∈ l, l.foldl (fun m d => min m d) a ≤ d) ∧
    (l.foldl (fun m d => min m d) a = a ∨ l.foldl (fun m d => min m d) a ∈ l) ∧
    (a :: l).min? = some (l.foldl (fun m d => min m d) a) ∧
    (l.min? = none ↔ l = []) ∧ (l = [] → l.foldl (fun m d => min m d) a = a) ∧
    (∀ m, l.min? = some m → (m ∈ l ∧ ∀ d ∈ l, m ≤ d) ∧ l.foldl (fun m d => min m d) a = min a m) := by
  refine ⟨foldl_min_le_init l a, foldl_min_le_mem l a, foldl_min_mem l a, rfl, List.min?_eq_none_iff, ?_, ?_⟩
  · intro h; rw [h]; rfl
  · intro m hm
    have hmin := List.min?_eq_some_iff.1 hm
    refine ⟨hmin, ?_⟩
    apply Nat.le_antisymm
    · rw [Nat.le_min]
      exact ⟨foldl_min_le_init l a, foldl_min_le_mem l a m hmin.1⟩
    · rw [le_foldl_min_iff]
      exact ⟨Nat.min_le_left _ _, fun d hd => Nat.le_trans (Nat.min_le_right _ _) (hmin.2 d hd)⟩

example : ([5, 2, 9] : List Nat).foldl (fun m d => min m d) 4 = 2 ∧ ([5, 9] : List Nat).foldl (fun m d => min m d) 4 = 4 ∧
    ([] : List Nat).foldl (fun m d => min m d) 4 = 4 := by decide

theorem C13_oracle_wit_iff (pr : GProp) (hexp : pr.exp ≠ .eventually) (t : Nat) : c13Wit pr t = true ↔ Wit pr.toProp t := by
  unfold c13Wit Wit GProp.toProp
  cases h : pr.exp with
  | eventually => exact absurd h hexp
  | always => simp
  | sometimes => simp

/-- **the discovery test of `oracleC13` is the conclusion of `C13_shortest`**: on a well-formed graph, a discovery path `p`
    for a property that is not `eventually` passes `p.length - 1 ≤ best` iff no in-boundary path from an initial state to a
    witnessing state has fewer states than `p` -/
theorem C13_oracle_best_test (g : Graph) (hwf : g.WF) (pr : GProp) (hexp : pr.exp ≠ .eventually) (p : List Nat) :
    p.length - 1 ≤ c13Best g pr p ↔
      ∀ q t, g.toSys.IsPath q → q.getLast? = some t → Wit pr.toProp t → p.length ≤ q.length := by
  unfold c13Best
  rw [le_foldl_min_iff]
  constructor
  · rintro ⟨_, h⟩ q t hq hl hw
    have hr : g.toSys.Reach t := Sys.reach_last_of_isPath hq hl
    cases hd : g.distOf t with
    | none => exact absurd hr ((COracle.C13_oracle_dist_none g hwf t).1 hd)
    | some d =>
      have hmem : d ∈ (g.reachList.filter (c13Wit pr)).filterMap g.distOf :=
        List.mem_filterMap.2 ⟨t, List.mem_filter.2 ⟨((COracle.C13_oracle_reach g hwf).1 t).2 hr,
          (C13_oracle_wit_iff pr hexp t).2 hw⟩, hd⟩
      have h1 := h d hmem
      have h2 := ((COracle.C13_oracle_dist g hwf t d).1 hd).2 q hq hl
      omega
  · intro h
    refine ⟨Nat.sub_le _ _, ?_⟩
    intro d hd
    obtain ⟨t, ht, hdt⟩ := List.mem_filterMap.1 hd
    obtain ⟨_, hw⟩ := List.mem_filter.1 ht
    obtain ⟨⟨q, hq, hl, hlen⟩, _⟩ := (COracle.C13_oracle_dist g hwf t d).1 hdt
    have := h q t hq hl ((C13_oracle_wit_iff pr hexp t).1 hw)
    omega

/-- tie to `C13_shortest`: every discovery of a FIFO single-worker run of the model (the BFS scheduler is one) passes the
    `best` test of `oracleC13` -/
theorem C13_oracle_best_run (c : Case) (hwf : c.g.WF) (hnd : c.cfg.maxDepth = none) (cs : List Choice)
    (hf : FifoRun c.params (init c.params.M c.params.props c.params.key) cs) :
    ∀ e ∈ (run c.params cs).disc, ∀ pr, c.props[e.1]? = some pr → pr.exp ≠ .eventually →
      e.2.length - 1 ≤ c13Best c.g pr e.2 := by
  intro e he pr hpr hexp
  rw [C13_oracle_best_test c.g hwf pr hexp]
  intro q t hq hl hw
  exact C13.C13_shortest c.params hnd (fun _ _ _ _ h => h) cs hf e he pr.toProp (C01_case_props_getElem? c e.1 pr hpr) hexp q t hq hl hw

/-! non-vacuity: a join reached by a long and a short path (the graph of `C13.exGraph`); the witness state 4 is at distance 2,
so `best = 2` for a 3-state discovery path, which passes; a 4-state path fails the test. -/
def exCase13 : Case :=
  { g := C13.exGraph, props := [⟨.sometimes, [false, false, false, false, true]⟩], cfg := {}, finish := .all }

example : c13Best exCase13.g ⟨.sometimes, [false, false, false, false, true]⟩ [0, 3, 4] = 2 ∧
    decide ([0, 3, 4].length - 1 ≤ c13Best exCase13.g ⟨.sometimes, [false, false, false, false, true]⟩ [0, 3, 4]) = true ∧
    decide ([0, 1, 2, 4].length - 1 ≤ c13Best exCase13.g ⟨.sometimes, [false, false, false, false, true]⟩ [0, 1, 2, 4]) = false ∧
    decide exCase13.g.WF = true := by decide

/-- the hypotheses of `C13_oracle_best_run` hold for the BFS scheduler on it -/
example : exCase13.cfg.maxDepth = none ∧
    FifoRun exCase13.params (init exCase13.params.M exCase13.params.props exCase13.params.key)
      (schedule exCase13.params .bfs 300 (init exCase13.params.M exCase13.params.props exCase13.params.key) blockSize) :=
  ⟨rfl, C13.C13_scheduler_is_fifo _ _ _ _⟩

end SR.CCompleteRun
