/-! # C02 — property theorems (stub: nothing stated yet) -/
namespace SR.C02
end SR.C02
