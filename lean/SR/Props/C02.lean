import SR.Proofs.Checker.Verdict
import SR.Proofs.Checker.Once
import SR.Checker.Verdict
/-!
# C02 — always/sometimes verdicts are exact once a check completes

Property theorems only; model `SR/Checker/Machine.lean`.  "Completed": `Quiescent` (join returned) and either
no job was ever dropped (`early = false`) or every property has a discovery (`allDiscovered`, the documented
second reason for `is_done`).  Under symmetry reduction the same holds for conditions invariant under the
symmetry relation (`C02_*_modulo`).
-/
namespace SR.C02
open SR SR.Checker

variable {σ κ α : Type} [DecidableEq κ] (P : Params σ κ α)

/-- the run completed: joined, and either exhaustive or with a discovery for every property -/
def Completed (s : St σ κ) : Prop := Quiescent s ∧ (s.early = false ∨ allDiscovered P s = true)

theorem allDiscovered_iff (s : St σ κ) :
    allDiscovered P s = true ↔ ∀ i, i < P.props.length → hasDisc s.disc i = true := by
  simp [allDiscovered, List.all_eq_true]

/-- general form: `R` transitive simulation containing key-equality on reachable states; witnesses are
    `R`-invariant.  Discovery for property `i` ⇔ some reachable state is a witness. -/
theorem C02_verdict_modulo (R : σ → σ → Prop)
    (hkey : ∀ a b, P.M.Reach a → P.M.Reach b → P.key a = P.key b → R a b)
    (htrans : ∀ a b c, R a b → R b c → R a c)
    (hsim : ∀ a b, R a b → ∀ a' ∈ P.M.succB a, ∃ b' ∈ P.M.succB b, R a' b')
    (cs : List Choice) (hc : Completed P (run P cs))
    (i : Nat) (pr : Prop' σ) (hpr : P.props[i]? = some pr) (hinv : ∀ a b, R a b → pr.cond a = pr.cond b)
    (hexp : pr.exp ≠ .eventually) :
    hasDisc (run P cs).disc i = true ↔ ∃ t, P.M.Reach t ∧ Wit pr t := by
  constructor
  · intro hd
    unfold hasDisc at hd
    obtain ⟨e, he, hei⟩ := List.any_eq_true.1 hd
    have hei : e.1 = i := by simpa using hei
    subst hei
    obtain ⟨hp, _, hw⟩ := (sinv_run (P := P) cs).disc e he
    obtain ⟨hwa, hws⟩ := hw pr hpr
    cases hx : pr.exp with
    | always =>
      obtain ⟨s, hl, hc'⟩ := hwa hx
      exact ⟨s, Sys.reach_last_of_isPath hp hl, Or.inl ⟨hx, hc'⟩⟩
    | sometimes =>
      obtain ⟨s, hl, hc'⟩ := hws hx
      exact ⟨s, Sys.reach_last_of_isPath hp hl, Or.inr ⟨hx, hc'⟩⟩
    | eventually => exact absurd hx hexp
  · rintro ⟨t, ht, hw⟩
    rcases hc.2 with he | hall
    · obtain ⟨u, hu, hr⟩ := complete_of_quiescent (P := P) R hkey htrans hsim cs hc.1 he t ht
      have hwu : Wit pr u := by
        unfold Wit at hw ⊢
        rw [← hinv t u hr]; exact hw
      exact (vinv_run (P := P) cs).done u hu i pr hpr hwu
    · exact (allDiscovered_iff P _).1 hall i (List.getElem?_eq_some_iff.1 hpr).1

/-- **always**: a counterexample is reported iff some reachable in-boundary state violates the property. -/
theorem C02_always (hinj : ∀ a b, P.M.Reach a → P.M.Reach b → P.key a = P.key b → a = b)
    (cs : List Choice) (hc : Completed P (run P cs)) (i : Nat) (pr : Prop' σ)
    (hpr : P.props[i]? = some pr) (hexp : pr.exp = .always) :
    hasDisc (run P cs).disc i = true ↔ ∃ t, P.M.Reach t ∧ pr.cond t = false := by
  rw [C02_verdict_modulo P Eq hinj (fun _ _ _ h1 h2 => h1.trans h2) (fun a b hab a' ha' => ⟨a', hab ▸ ha', rfl⟩)
    cs hc i pr hpr (fun a b hab => by rw [hab]) (by rw [hexp]; exact fun e => by cases e)]
  constructor
  · rintro ⟨t, ht, (⟨_, h⟩ | ⟨he, _⟩)⟩
    · exact ⟨t, ht, h⟩
    · rw [hexp] at he; cases he
  · rintro ⟨t, ht, h⟩; exact ⟨t, ht, Or.inl ⟨hexp, h⟩⟩

/-- **sometimes**: an example is reported iff some reachable in-boundary state satisfies the property. -/
theorem C02_sometimes (hinj : ∀ a b, P.M.Reach a → P.M.Reach b → P.key a = P.key b → a = b)
    (cs : List Choice) (hc : Completed P (run P cs)) (i : Nat) (pr : Prop' σ)
    (hpr : P.props[i]? = some pr) (hexp : pr.exp = .sometimes) :
    hasDisc (run P cs).disc i = true ↔ ∃ t, P.M.Reach t ∧ pr.cond t = true := by
  rw [C02_verdict_modulo P Eq hinj (fun _ _ _ h1 h2 => h1.trans h2) (fun a b hab a' ha' => ⟨a', hab ▸ ha', rfl⟩)
    cs hc i pr hpr (fun a b hab => by rw [hab]) (by rw [hexp]; exact fun e => by cases e)]
  constructor
  · rintro ⟨t, ht, (⟨he, _⟩ | ⟨_, h⟩)⟩
    · rw [hexp] at he; cases he
    · exact ⟨t, ht, h⟩
  · rintro ⟨t, ht, h⟩; exact ⟨t, ht, Or.inr ⟨hexp, h⟩⟩

/-- **assert_properties** (property lists of always/sometimes properties): it succeeds exactly when every
    always-property holds on all reachable states and every sometimes-property is witnessed; and `is_done`. -/
theorem C02_assert (hinj : ∀ a b, P.M.Reach a → P.M.Reach b → P.key a = P.key b → a = b)
    (hne : ∀ pr ∈ P.props, pr.exp ≠ .eventually)
    (cs : List Choice) (hc : Completed P (run P cs)) :
    isDone P (run P cs) = true ∧
    (assertPropertiesOk P (run P cs) = true ↔
      (∀ (i : Nat) (pr : Prop' σ), P.props[i]? = some pr → pr.exp = .always → ∀ t, P.M.Reach t → pr.cond t = true) ∧
      (∀ (i : Nat) (pr : Prop' σ), P.props[i]? = some pr → pr.exp = .sometimes → ∃ t, P.M.Reach t ∧ pr.cond t = true)) := by
  have hdone : isDone P (run P cs) = true := by
    unfold isDone; rw [hc.1.1, hc.1.2]; simp
  refine ⟨hdone, ?_⟩
  unfold assertPropertiesOk
  rw [List.all_eq_true]
  constructor
  · intro h
    refine ⟨?_, ?_⟩
    · intro i pr hpr hexp t ht
      have hlt : i < P.props.length := (List.getElem?_eq_some_iff.1 hpr).1
      have := h i (List.mem_range.2 hlt)
      rw [hpr] at this
      simp only [hexp] at this
      have hnd : hasDisc (run P cs).disc i = false := by
        simp at this; exact this.1
      cases hct : pr.cond t with
      | true => rfl
      | false =>
        have := (C02_always P hinj cs hc i pr hpr hexp).2 ⟨t, ht, hct⟩
        rw [hnd] at this; cases this
    · intro i pr hpr hexp
      have hlt : i < P.props.length := (List.getElem?_eq_some_iff.1 hpr).1
      have := h i (List.mem_range.2 hlt)
      rw [hpr] at this
      simp only [hexp] at this
      exact (C02_sometimes P hinj cs hc i pr hpr hexp).1 (by simpa using this)
  · rintro ⟨ha, hs⟩ i hi
    have hlt := List.mem_range.1 hi
    have hpr : P.props[i]? = some P.props[i] := List.getElem?_eq_getElem hlt
    rw [hpr]
    have hmem : P.props[i] ∈ P.props := List.getElem_mem hlt
    cases hexp : P.props[i].exp with
    | sometimes =>
      simp only [hexp, beq_self_eq_true, if_true]
      exact (C02_sometimes P hinj cs hc i _ hpr hexp).2 (hs i _ hpr hexp)
    | always =>
      have hnd : hasDisc (run P cs).disc i = false := by
        cases hd : hasDisc (run P cs).disc i with
        | false => rfl
        | true =>
          obtain ⟨t, ht, hcf⟩ := (C02_always P hinj cs hc i _ hpr hexp).1 hd
          rw [ha i _ hpr hexp t ht] at hcf; cases hcf
      simp [hnd, hdone, hexp]
    | eventually => exact absurd hexp (hne _ hmem)

end SR.C02
