import SR.Proofs.Checker.Assert
import SR.Checker.Verdict
/-!
# The provided assertion / classification helpers of the `Checker` trait (C02, C03)

Property theorems only.  Model: `SR/Checker/Assert.lean` (src/checker.rs: `discovery`, `discovery_classification`,
`assert_any_discovery`, `assert_no_discovery`, `assert_properties`, `assert_discovery`).  They are what a user's test
calls after a check, so C02 ("assert_properties succeeds exactly when …") and C03 (`discovery_classification`) are
observed through them.
-/
namespace SR.CAssert
open SR SR.PathApi SR.Checker SR.Checker.Assert

variable {σ α : Type}

/-- `assert_no_discovery` returns exactly when there is no discovery and the check is done;
    `assert_any_discovery` returns exactly when there is a discovery. -/
theorem C02_assert_any_no (v : View σ α) (i : Nat) :
    (assertAnyOk v i = true ↔ ∃ p, v.discovery i = some p) ∧
    (assertNoOk v i = true ↔ v.discovery i = none ∧ v.done = true) := by
  constructor
  · simp [assertAnyOk, Option.isSome_iff_exists]
  · simp [assertNoOk, Option.isNone_iff_eq_none]

/-- `assert_properties` (the loop over the per-property helpers, as written in the code) is the verdict function of
    the checker machine for which `C02_assert` is proved: for any exposure `v` of a machine state `s` — `is_done` and the
    presence of a discovery per property agree — the two coincide. -/
theorem C02_assert_properties_helpers {κ : Type} [DecidableEq κ] (P : Params σ κ α) (s : St σ κ) (v : View σ α)
    (hdone : v.done = isDone P s) (hdisc : ∀ i, (v.discovery i).isSome = hasDisc s.disc i) :
    Assert.assertPropertiesOk P.props v = Checker.assertPropertiesOk P s := by
  unfold Assert.assertPropertiesOk Checker.assertPropertiesOk
  congr 1
  funext i
  cases hp : P.props[i]? with
  | none => rfl
  | some pr =>
    simp only
    cases hx : pr.exp <;>
      simp [assertNoOk, assertAnyOk, hdone, ← hdisc i, Option.isNone_iff_eq_none, Option.isSome_iff_ne_none] <;>
      cases v.discovery i <;> simp

/-- `discovery_classification`: "counterexample" exactly for always/eventually properties, "example" exactly for
    sometimes properties (and a panic only for a name that is not a property). -/
theorem C03_classification (props : List (Prop' σ)) (i : Nat) :
    (classification props i = some .counterexample ↔ ∃ pr, props[i]? = some pr ∧ pr.exp ≠ .sometimes) ∧
    (classification props i = some .example ↔ ∃ pr, props[i]? = some pr ∧ pr.exp = .sometimes) ∧
    (classification props i = none ↔ props.length ≤ i) := by
  unfold classification
  cases hp : props[i]? with
  | none =>
    have := List.getElem?_eq_none_iff.1 hp
    simp [this]
  | some pr =>
    have : i < props.length := (List.getElem?_eq_some_iff.1 hp).1
    cases hx : pr.exp <;> simp [hx] <;> omega

/-- what `assert_discovery` demands of the path denoted by the actions -/
def Accepts (M : Sys σ α) (pr : Prop' σ) (p : Path σ α) : Prop :=
  (pr.exp = .always → ∃ s, lastState p = some s ∧ pr.cond s = false) ∧
  (pr.exp = .sometimes → ∃ s, lastState p = some s ∧ pr.cond s = true) ∧
  (pr.exp = .eventually → (∀ s ∈ intoStates p, pr.cond s = false) ∧ ∃ s, lastState p = some s ∧ M.acts s = [])

theorem acceptsPath_iff (M : Sys σ α) (pr : Prop' σ) (p : Path σ α) :
    acceptsPath M pr p = true ↔ Accepts M pr p := by
  unfold acceptsPath Accepts
  cases hx : pr.exp <;> cases hl : lastState p <;> simp [List.isEmpty_iff]

/-- **`assert_discovery(name, actions)`** returns exactly when the checker has a discovery for the property AND the
    actions, replayed from some initial state, denote a real execution of the model (every action offered and not
    ignored) that is a witness: last state violates (always) / satisfies (sometimes) the condition; for eventually no
    state of the execution satisfies it and the last state has no actions at all. -/
theorem C03_assert_discovery [DecidableEq α] (M : Sys σ α) (props : List (Prop' σ)) (v : View σ α) (i : Nat)
    (acts : List α) :
    assertDiscoveryOk M props v i acts = true ↔
      (∃ q, v.discovery i = some q) ∧
      ∃ pr, props[i]? = some pr ∧ ∃ s0 ∈ M.init, ∃ p, ExecFrom M s0 p ∧ intoActions p = acts ∧ Accepts M pr p := by
  unfold assertDiscoveryOk
  rw [Bool.and_eq_true, (C02_assert_any_no v i).1]
  apply and_congr_right
  intro _
  cases hp : props[i]? with
  | none => simp
  | some pr =>
    simp only [List.any_eq_true, Option.some.injEq, exists_eq_left']
    constructor
    · rintro ⟨s0, hs0, h⟩
      cases hf : fromActionsAux M s0 acts with
      | none => rw [hf] at h; cases h
      | some p =>
        rw [hf] at h
        obtain ⟨he, ha⟩ := fromActionsAux_sound M acts s0 p hf
        exact ⟨s0, hs0, p, he, ha, (acceptsPath_iff M pr p).1 h⟩
    · rintro ⟨s0, hs0, p, he, ha, hacc⟩
      refine ⟨s0, hs0, ?_⟩
      rw [(fromActionsAux_iff M acts s0 p).2 ⟨he, ha⟩]
      exact (acceptsPath_iff M pr p).2 hacc

/-- non-vacuity: a two-state system `0 -a-> 1`, property "always (≠ 1)" with the discovery `[0,1]`: the helper accepts
    the action list `[a]` and rejects the empty one -/
example :
    let M : Sys Nat Nat := { init := [0], acts := fun s => if s = 0 then [7] else [], next := fun s a => if s = 0 ∧ a = 7 then some 1 else none, inB := fun _ => true }
    let props : List (Prop' Nat) := [{ exp := .always, cond := fun s => s != 1 }]
    let v : View Nat Nat := { done := true, disc := [(0, [(0, some 7), (1, none)])] }
    assertDiscoveryOk M props v 0 [7] = true ∧ assertDiscoveryOk M props v 0 [] = false ∧
    assertPropertiesOk props v = false ∧ classification props 0 = some .counterexample := by
  decide

end SR.CAssert
