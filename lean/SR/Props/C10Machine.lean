import SR.Props.C01
import SR.Props.C02
import SR.Props.C03
/-!
# C10 (c) — symmetry reduction in the DFS checker preserves verdicts

Property theorems only (plans and representatives are in `Props/C10.lean`).  dfs.rs with `.symmetry()` is the
checker machine with `key = fingerprint ∘ representative`; the jobs keep the ORIGINAL states.
Hypotheses on the user's model (exactly the property's "invariant under permutations of process identities"):
`R` (the symmetry relation) is transitive, a simulation of the in-boundary successor relation, and two reachable
states with the same key are `R`-related (`representative s` is in the orbit of `s` and fingerprints of
representatives do not collide).  Conditions of the properties are `R`-invariant.
-/
namespace SR.C10M
open SR SR.Checker

variable {σ κ α : Type} [DecidableEq κ] (P : Params σ κ α)
variable (R : σ → σ → Prop)

/-- same always/sometimes verdicts as the declarative ones (hence as the unreduced check, `C02_always`/`C02_sometimes`) -/
theorem C10_verdicts
    (hkey : ∀ a b, P.M.Reach a → P.M.Reach b → P.key a = P.key b → R a b)
    (htrans : ∀ a b c, R a b → R b c → R a c)
    (hsim : ∀ a b, R a b → ∀ a' ∈ P.M.succB a, ∃ b' ∈ P.M.succB b, R a' b')
    (cs : List Choice) (hc : C02.Completed P (run P cs))
    (i : Nat) (pr : Prop' σ) (hpr : P.props[i]? = some pr) (hinv : ∀ a b, R a b → pr.cond a = pr.cond b)
    (hexp : pr.exp ≠ .eventually) :
    hasDisc (run P cs).disc i = true ↔ ∃ t, P.M.Reach t ∧ Wit pr t :=
  C02.C02_verdict_modulo P R hkey htrans hsim cs hc i pr hpr hinv hexp

/-- at least one evaluated state per symmetry class -/
theorem C10_one_per_class
    (hkey : ∀ a b, P.M.Reach a → P.M.Reach b → P.key a = P.key b → R a b)
    (htrans : ∀ a b c, R a b → R b c → R a c)
    (hsim : ∀ a b, R a b → ∀ a' ∈ P.M.succB a, ∃ b' ∈ P.M.succB b, R a' b')
    (cs : List Choice) (hq : Quiescent (run P cs)) (he : (run P cs).early = false) :
    ∀ t, P.M.Reach t → ∃ u ∈ visitedStates (run P cs), R t u :=
  C01.C01_exact_modulo P R hkey htrans hsim cs hq he

/-- never more states than the unreduced check: evaluated states are reachable and pairwise of distinct keys -/
theorem C10_never_more (hnd : (P.M.initB.map P.key).Nodup) (cs : List Choice) :
    (∀ u ∈ visitedStates (run P cs), P.M.Reach u) ∧ ((visitedStates (run P cs)).map P.key).Nodup :=
  ⟨fun u hu => (C01.C01_evaluated_reachable P cs u hu).choose_spec.2.2.2, (C01.C01_once P hnd cs).1⟩

/-- reported paths remain real executions of the ORIGINAL model -/
theorem C10_paths_real (cs : List Choice) :
    (∀ p ∈ (run P cs).visits, P.M.IsPath p) ∧ (∀ e ∈ (run P cs).disc, P.M.IsPath e.2) :=
  ⟨C01.C01_sound P cs, C03.C03_path P cs⟩

end SR.C10M
