import SR.Proofs.RuntimeMatch
/-!
# C17 — the datagram matching of the runtime oracle `o-trace` (builder W-Z8)

Property theorems only; definitions and proofs in `SR/Proofs/RuntimeMatch.lean`.

`o-trace` (`SR.Drv.C17.checkScenario`) replays the log of a real `spawn()` run.  A logged `on_msg` carries only
`(t, src id, msg)`; `eventsOf` backs it GREEDILY (`takeFirst`) by the first datagram of the actor's pool (the datagrams
sent to this actor: the harness's, then `sendsOf` of every actor) that is FEASIBLE: `okDg r d` = same source id, deserializes
to the claimed message, sent no later than the handler ran.  What is left of the pool is then subject to the delivery deadline
(`mustDeliver`: parses, sent at or after the destination's `on_start`, at least `grace` before the end of the observation).

Definitions (all in `SR.RuntimeMatch`):
* `greedy ok pool rs`        the greedy pass for an arbitrary feasibility test; `eventsOf` IS `greedy okDg` on
                             `recvsOf log` (`C17_oracle_eventsOf_is_greedy`);
* `Matching ok pool rs ch left`  DECLARATIVE: the pool splits as a multiset (`List.Perm`) into `ch`, whose `j`-th element is
                             feasible for the `j`-th receive, and `left`;  `Assignment ok pool rs f`: `f` lists pairwise
                             different pool POSITIONS holding feasible entries (the injective assignment); the two notions
                             are the same (`C17_oracle_matching_is_injective_assignment`);
* `logOrdered`, `poolOrdered`, `deadlineOrdered`, `noEarly : … → Bool`  the checkable preconditions;
* `afterMatch`               the rest of the per-actor body of `checkScenario` (`C17_oracle_scenario_unfold`).

RESULTS
* sound: what the greedy pass builds is a matching, i.e. an injective assignment (`C17_oracle_match_sound`);
* complete: if ANY matching exists and same-key receives are logged in time order, the greedy pass succeeds
  (`C17_oracle_match_complete`) — so an `on_msg-without-datagram` alarm on a time-ordered log is genuine.  `poolOrdered` is
  NOT needed for this (the send-time test is part of the feasibility test, so greedy takes the first FEASIBLE datagram, and in a
  time-ordered log a datagram feasible now stays feasible); `logOrdered` IS needed (`C17_oracle_match_needs_logOrdered`);
* FINDING (fixed in the driver since): `poolOrdered` matters for the DEADLINE check, and is not enough: with both `poolOrdered`
  and `logOrdered` true the greedy choice on the RAW pool can leave a datagram that must be delivered although another matching
  leaves none — when the same (src, msg) was sent once before the destination's `on_start` (may be lost) and once after
  (`C17_oracle_deadline_regression`: `o-trace` used to answer `datagram-not-delivered` on a scenario that a matching explains
  completely).  The true statement needs `deadlineOrdered` (`C17_oracle_deadline_complete_partial`).  `checkScenario` now
  NORMALISES each actor's pool (`normalise`: must-deliver datagrams first), which only permutes the pool and makes
  `deadlineOrdered` hold by construction (`C17_oracle_normalise`);
* for ALL matchings the replay gives the same verdict and the same `sent` (`C17_oracle_replay_choice_irrelevant`), `sent` is
  `sendsOf` (`C17_oracle_send_faithful`), hence, on time-ordered logs, `o-trace` answers `ok` iff every actor has SOME matching
  that passes every check (`C17_oracle_scenario_iff`, only precondition `logOrdered`; `C17_oracle_actor_complete`,
  `C17_oracle_actor_sound`);
* `compareOut` (now sorting with `List.mergeSort`): key multisets equal + causality (`C17_oracle_compareOut_keys`).
-/
namespace SR.C17Match
open SR SR.Drv.C17 SR.IdCodec SR.Loop SR.RuntimeMatch

deriving instance DecidableEq for SR.Drv.C17.Dg

/-! ## concrete data for the examples and counterexamples -/

def me : Addr := ⟨127, 0, 0, 1, 3000⟩
def peer : Addr := ⟨127, 0, 0, 1, 4000⟩
/-- the datagram `M5` from `peer` to `me`, sent at `t` -/
def dg (t : Nat) : Dg := ⟨t, peer, me, [77, 53]⟩
/-- `on_msg(src = peer, msg = 5)` logged at `t` -/
def rcv (t : Nat) : Entry := .msg t 0 (idOf peer) 5 0 []

example : okDg ⟨10, idOf peer, 5⟩ (dg 3) = true := by decide
example : okDg ⟨10, idOf peer, 5⟩ (dg 11) = false := by decide

/-! ## 0. `eventsOf` is the greedy pass; matchings are injective assignments -/

/-- `eventsOf` is `greedy okDg` on the `on_msg` entries of the log: it fails iff the greedy pass fails, and otherwise returns
the log backed by the chosen datagrams and the greedy left-over -/
theorem C17_oracle_eventsOf_is_greedy (pool : List Dg) (log : List Entry) (i : Nat) :
    (∀ evs left, eventsOf pool log i = .ok (evs, left) ↔
      ∃ ch, greedy okDg pool (recvsOf log) = some (ch, left) ∧ evs = backed log ch) ∧
    ((∃ e, eventsOf pool log i = .error e) ↔ greedy okDg pool (recvsOf log) = none) := by
  cases hg : greedy okDg pool (recvsOf log) with
  | none =>
    obtain ⟨e, he⟩ := eventsOf_greedy_none log pool i hg
    exact ⟨fun evs left => by simp [he], by simp [he]⟩
  | some x =>
    obtain ⟨ch, left⟩ := x
    have he := eventsOf_greedy_some log pool i hg
    refine ⟨fun evs left' => ?_, by simp [he]⟩
    rw [he]
    constructor
    · intro h
      injection h with h
      injection h with h1 h2
      exact ⟨ch, by rw [h2], h1.symm⟩
    · rintro ⟨ch', h1, rfl⟩
      injection h1 with h1
      injection h1 with h1 h2
      rw [h1, h2]

/-- the multiset formulation (`Matching`) and the injective assignment of receives to pool positions (`Assignment`) are the
same notion -/
theorem C17_oracle_matching_is_injective_assignment {α ρ : Type} (ok : ρ → α → Bool) (pool : List α) (rs : List ρ)
    (ch : List α) :
    (∃ left, Matching ok pool rs ch left) ↔ ∃ f, Assignment ok pool rs f ∧ f.filterMap (fun i => pool[i]?) = ch := by
  constructor
  · rintro ⟨left, h⟩; exact matching_assignment h
  · rintro ⟨f, h, rfl⟩; exact assignment_matching h

example : Assignment okDg [dg 3, dg 7] [⟨5, idOf peer, 5⟩, ⟨10, idOf peer, 5⟩] [0, 1] :=
  ⟨⟨⟨dg 3, rfl, by decide⟩, ⟨dg 7, rfl, by decide⟩, trivial⟩, by decide⟩

/-! ## 1. soundness and completeness of the greedy matching -/

/-- SOUND: if `eventsOf` succeeds, the datagrams it chose form a matching of the logged receives into the pool with the
returned left-over — an injective assignment of the receives to pool positions holding feasible datagrams — and the events
are the log backed by exactly these datagrams -/
theorem C17_oracle_match_sound {pool : List Dg} {log : List Entry} {i : Nat} {evs : List E} {left : List Dg}
    (h : eventsOf pool log i = .ok (evs, left)) :
    ∃ ch, Matching okDg pool (recvsOf log) ch left ∧ evs = backed log ch ∧
      ∃ f, Assignment okDg pool (recvsOf log) f ∧ f.filterMap (fun i => pool[i]?) = ch := by
  obtain ⟨ch, hg, he⟩ := ((C17_oracle_eventsOf_is_greedy pool log i).1 evs left).1 h
  have hm := greedy_sound hg
  exact ⟨ch, hm, he, matching_assignment hm⟩

example : ∃ evs, eventsOf [dg 3, dg 7] [rcv 5, rcv 10] 0 = .ok (evs, []) :=
  ⟨_, eventsOf_greedy_some _ _ 0 (ch := [dg 3, dg 7]) (by decide)⟩

/-- COMPLETE: if ANY matching of the logged receives into the pool exists and same-key receives are logged in time order
(`RecvsOrdered`, implied by `logOrdered log = true`: `C17_oracle_preconditions_checkable`), `eventsOf` succeeds.
Nothing is demanded of the pool: `poolOrdered` is not needed. -/
theorem C17_oracle_match_complete {pool : List Dg} {log : List Entry} (i : Nat) {ch left : List Dg}
    (hlog : RecvsOrdered (recvsOf log)) (hM : Matching okDg pool (recvsOf log) ch left) :
    ∃ evs left', eventsOf pool log i = .ok (evs, left') := by
  obtain ⟨chg, leftg, hg⟩ := greedy_complete (exch_of_recvsOrdered hlog) hM
  exact ⟨_, _, eventsOf_greedy_some log pool i hg⟩

/-- the same with the Bool precondition and an injective assignment as hypothesis -/
theorem C17_oracle_match_complete_assignment {pool : List Dg} {log : List Entry} (i : Nat) {f : List Nat}
    (hlog : logOrdered log = true) (hA : Assignment okDg pool (recvsOf log) f) :
    ∃ evs left', eventsOf pool log i = .ok (evs, left') := by
  obtain ⟨left, hM⟩ := assignment_matching hA
  exact C17_oracle_match_complete i (recvsOrdered_of_logOrdered hlog) hM

/-- hence, on a time-ordered log, `on_msg-without-datagram` is a genuine alarm: no injective assignment of the logged receives
to feasible pool datagrams exists -/
theorem C17_oracle_match_alarm_genuine {pool : List Dg} {log : List Entry} {i : Nat} {e : String}
    (hlog : logOrdered log = true) (h : eventsOf pool log i = .error e) :
    (¬ ∃ ch left, Matching okDg pool (recvsOf log) ch left) ∧ ¬ ∃ f, Assignment okDg pool (recvsOf log) f := by
  have key : ¬ ∃ ch left, Matching okDg pool (recvsOf log) ch left := by
    rintro ⟨ch, left, hM⟩
    obtain ⟨evs, left', h'⟩ := C17_oracle_match_complete i (recvsOrdered_of_logOrdered hlog) hM
    rw [h] at h'; cases h'
  refine ⟨key, ?_⟩
  rintro ⟨f, hA⟩
  obtain ⟨left, hM⟩ := assignment_matching hA
  exact key ⟨_, left, hM⟩

-- non-vacuous: an ordered log, an unordered pool, a matching that is NOT the greedy one
example : logOrdered [rcv 5, rcv 10] = true ∧ poolOrdered [dg 7, dg 3] = false ∧
    Matching okDg [dg 7, dg 3] (recvsOf [rcv 5, rcv 10]) [dg 3, dg 7] [] :=
  ⟨by decide, by decide, ⟨by decide, by decide, trivial⟩, List.Perm.swap _ _ _⟩

/-- `logOrdered` IS necessary: the log `[on_msg at 10, on_msg at 5]` (same source, same message) and the pool `[sent at 3, sent
at 7]` have a matching (`10 ↦ 7`, `5 ↦ 3`) but the greedy pass gives the datagram sent at 3 to the first entry and fails on the
second.  (Such a log is rejected by the replay anyway, as `clock-backwards`: the alarm is mislabelled, not false.) -/
theorem C17_oracle_match_needs_logOrdered :
    logOrdered [rcv 10, rcv 5] = false ∧ poolOrdered [dg 3, dg 7] = true ∧
    Matching okDg [dg 3, dg 7] (recvsOf [rcv 10, rcv 5]) [dg 7, dg 3] [] ∧
    ∃ e, eventsOf [dg 3, dg 7] [rcv 10, rcv 5] 0 = .error e :=
  ⟨by decide, by decide, ⟨⟨by decide, by decide, trivial⟩, List.Perm.swap _ _ _⟩,
    eventsOf_greedy_none _ _ 0 (by decide)⟩

/-! ## 2. the left-over pool and the delivery deadline -/

/-- DEADLINE-COMPLETE (partial: needs `deadlineOrdered`).  If SOME matching leaves no datagram that must be delivered, the log
is time-ordered and — among same-key datagrams of the pool — one that must be delivered is never preceded by one that need
not (`deadlineOrdered`), then the greedy pass succeeds and leaves no datagram that must be delivered either.

FULL STATEMENT (FALSE, see `C17_oracle_deadline_regression`): the same with `poolOrdered pool = true` in place of
`deadlineOrdered …`.  What is missing: `noEarly` (no pool datagram was sent before the destination's `on_start`), see
`C17_oracle_preconditions_checkable`.  The driver does not rely on it: it normalises the pool (`C17_oracle_normalise`). -/
theorem C17_oracle_deadline_complete_partial {pool : List Dg} {log : List Entry} (i tStart tEnd grace : Nat)
    {ch left : List Dg}
    (hlog : logOrdered log = true) (hpool : deadlineOrdered tStart tEnd grace pool = true)
    (hM : Matching okDg pool (recvsOf log) ch left)
    (hleft : left.filter (mustDeliver tStart tEnd grace) = []) :
    ∃ evs left', eventsOf pool log i = .ok (evs, left') ∧ left'.filter (mustDeliver tStart tEnd grace) = [] := by
  have hl : ∀ x ∈ left, mustDeliver tStart tEnd grace x = false := by
    intro x hx
    have := List.filter_eq_nil_iff.1 hleft x hx
    simpa using this
  obtain ⟨chg, leftg, hg, hlg⟩ := greedy_exchange (exch_of_recvsOrdered (recvsOrdered_of_logOrdered hlog))
    (mustPrefix_of_deadlineOrdered hpool) hM hl
  refine ⟨_, _, eventsOf_greedy_some log pool i hg, ?_⟩
  rw [List.filter_eq_nil_iff]
  intro x hx; simp [hlg x hx]

-- non-vacuous: destination started at 0, observation ends at 300 with grace 250; the datagram sent at 100 need not arrive
example : logOrdered [rcv 200] = true ∧ deadlineOrdered 0 300 250 [dg 1, dg 100] = true ∧
    Matching okDg [dg 1, dg 100] (recvsOf [rcv 200]) [dg 1] [dg 100] ∧
    [dg 100].filter (mustDeliver 0 300 250) = [] :=
  ⟨by decide, by decide, ⟨⟨by decide, trivial⟩, List.Perm.refl _⟩, by decide⟩

/-- `poolOrdered` (more precisely `deadlineOrdered`) IS necessary for the deadline check: pool `[sent at 100, sent at 1]`, one
receive at 200, end of observation 300, grace 250.  Backing the receive by the datagram sent at 1 leaves only the one sent at
100 (too late to be due); the greedy pass takes the one sent at 100 and leaves the one sent at 1, which is due. -/
theorem C17_oracle_deadline_needs_poolOrdered :
    logOrdered [rcv 200] = true ∧ poolOrdered [dg 100, dg 1] = false ∧
    Matching okDg [dg 100, dg 1] (recvsOf [rcv 200]) [dg 1] [dg 100] ∧
    [dg 100].filter (mustDeliver 0 300 250) = [] ∧
    ∃ evs, eventsOf [dg 100, dg 1] [rcv 200] 0 = .ok (evs, [dg 1]) ∧ [dg 1].filter (mustDeliver 0 300 250) = [dg 1] :=
  ⟨by decide, by decide, ⟨⟨by decide, trivial⟩, List.Perm.swap _ _ _⟩, by decide,
    _, eventsOf_greedy_some _ _ 0 (ch := [dg 100]) (by decide), by decide⟩

/-- `checkScenario` hands `eventsOf` the NORMALISED pool (must-deliver datagrams first): a permutation of the actor's pool —
so the matchings are the same — that is `deadlineOrdered` by construction -/
theorem C17_oracle_normalise (tStart tEnd grace : Nat) (pool : List Dg) :
    (normalise tStart tEnd grace pool).Perm pool ∧
    deadlineOrdered tStart tEnd grace (normalise tStart tEnd grace pool) = true ∧
    ∀ (rs : List Recv) (ch left : List Dg),
      Matching okDg (normalise tStart tEnd grace pool) rs ch left ↔ Matching okDg pool rs ch left :=
  ⟨normalise_perm _ _ _ _, deadlineOrdered_normalise _ _ _ _, fun _ _ _ => matching_normalise⟩

example : normalise 50 1000 10 [dg 1, dg 100, dg 995, dg 60] = [dg 100, dg 60, dg 1, dg 995] := by decide

/-! ### REGRESSION: the false alarm `o-trace` raised before the pool was normalised -/

/-- the scenario: ONE actor (at `me`) whose log is `on_start` at 50 and one `on_msg(peer, 5)` at 200; the harness sent `M5`
from `peer` to `me` at 1 (before the actor's socket was up: lost) and again at 100 (delivered at 200); end of observation
1000, grace 10, nothing observed, no observers -/
def faActor : ActorLog := ⟨idOf me, [.start 50 0 [], rcv 200]⟩
def faSent : List Dg := [dg 1, dg 100]

/-- In the scenario above the log is time-ordered and the raw pool lists same-key datagrams in send-time order (the two
preconditions `notes/oracles.md` argued for), and backing the `on_msg` by the datagram sent at 100 explains the run completely.
The greedy pass ON THE RAW POOL backs the `on_msg` by the datagram sent at 1 and leaves the one sent at 100, which must be
delivered: `checkScenario` used to answer `datagram-not-delivered` (a FALSE ALARM).  With the normalised pool it answers `ok`. -/
theorem C17_oracle_deadline_regression :
    logOrdered faActor.log = true ∧ poolOrdered (actorPool [faActor] faSent faActor) = true ∧
    Matching okDg (actorPool [faActor] faSent faActor) (recvsOf faActor.log) [dg 100] [dg 1] ∧
    afterMatch faActor [] [] 1000 10 0 (backed faActor.log [dg 100]) [dg 1] = none ∧
    (∃ evs, eventsOf (actorPool [faActor] faSent faActor) faActor.log 0 = .ok (evs, [dg 100]) ∧
      afterMatch faActor [] [] 1000 10 0 evs [dg 100] ≠ none) ∧
    checkScenario [faActor] faSent [] [] 1000 10 = none := by
  have hpool : actorPool [faActor] faSent faActor = [dg 1, dg 100] := by decide
  have hnorm : normPool [faActor] faSent faActor 1000 10 = [dg 100, dg 1] := by decide
  have hp : Paired okDg (recvsOf faActor.log) [dg 100] := ⟨by decide, trivial⟩
  have hpg : Paired okDg (recvsOf faActor.log) [dg 1] := ⟨by decide, trivial⟩
  have hcmp : compareOut ((sendsOf faActor).filter (fun d => ([] : List Addr).contains d.dst))
      (([] : List Dg).filter (fun d => d.src == addrOf faActor.id)) = none :=
    (compareOut_none_iff _ _).2 ⟨by decide, by decide⟩
  have hpass : afterMatch faActor [] [] 1000 10 0 (backed faActor.log [dg 100]) [dg 1] = none := by
    rw [afterMatch_none_iff _ _ _ _ _ _ hp]
    exact ⟨by decide, hcmp, .inr (by decide)⟩
  refine ⟨by decide, by rw [hpool]; decide, ⟨hp, by rw [hpool]; exact List.Perm.swap _ _ _⟩, hpass, ?_, ?_⟩
  · refine ⟨_, eventsOf_greedy_some _ _ 0 (ch := [dg 1]) (by rw [hpool]; decide), ?_⟩
    rw [Ne, afterMatch_none_iff _ _ _ _ _ _ hpg]
    rintro ⟨_, _, h | h⟩
    · revert h; decide
    · revert h; decide
  · have hgo := go_cons [faActor] faSent [] [] 1000 10 faActor [] 0
    have he : eventsOf (normPool [faActor] faSent faActor 1000 10) faActor.log 0 =
        .ok (backed faActor.log [dg 100], [dg 1]) :=
      eventsOf_greedy_some _ _ 0 (by rw [hnorm]; decide)
    show checkScenario.go faSent [] [] 1000 10 ([faActor].flatMap sendsOf) [faActor] 0 = none
    rw [hgo, he]
    dsimp only
    rw [hpass]
    rfl

/-! ## 3. the preconditions are checkable on exactly the data `checkScenario` has -/

/-- `logOrdered`, `poolOrdered`, `deadlineOrdered`, `noEarly` (defined in the driver, `SR/Drv/C17.lean`) are Bool functions of the
log, resp. of the pool and the three numbers `checkScenario` computes; they say what their names say (`Pairwise` statements) and
imply the hypotheses of the theorems above.  The driver uses `logOrdered` to label an `on_msg-without-datagram` alarm on a log
that is not time-ordered (`log-not-time-ordered`; still an alarm: the replay rejects such a log as `clock-backwards`). -/
theorem C17_oracle_preconditions_checkable (log : List Entry) (pool : List Dg) (tStart tEnd grace : Nat) :
    (logOrdered log = true ↔ log.Pairwise fun e e' => e.time ≤ e'.time) ∧
    (poolOrdered pool = true ↔ pool.Pairwise fun a b => sameKey a b = true → a.t ≤ b.t) ∧
    (deadlineOrdered tStart tEnd grace pool = true ↔ pool.Pairwise fun a b =>
      sameKey a b = true → mustDeliver tStart tEnd grace b = true → mustDeliver tStart tEnd grace a = true) ∧
    (noEarly tStart pool = true ↔ ∀ d ∈ pool, tStart ≤ d.t) ∧
    (logOrdered log = true → RecvsOrdered (recvsOf log)) ∧
    (deadlineOrdered tStart tEnd grace pool = true → MustPrefix okDg (mustDeliver tStart tEnd grace) pool) ∧
    (poolOrdered pool = true → noEarly tStart pool = true → deadlineOrdered tStart tEnd grace pool = true) := by
  refine ⟨?_, ?_, ?_, ?_, recvsOrdered_of_logOrdered, mustPrefix_of_deadlineOrdered, deadlineOrdered_of_poolOrdered⟩
  · rw [logOrdered, pairwiseB_iff]
    constructor <;> intro h <;> refine h.imp ?_ <;> intro a b hab <;> simpa using hab
  · rw [poolOrdered, pairwiseB_iff]
    constructor <;> intro h <;> refine h.imp ?_ <;> intro a b hab
    · intro hk; simpa [hk] using hab
    · cases hk : sameKey a b <;> simp; exact hab hk
  · rw [deadlineOrdered, pairwiseB_iff]
    constructor <;> intro h <;> refine h.imp ?_ <;> intro a b hab
    · intro hk hm; simpa [hk, hm] using hab
    · cases hk : sameKey a b <;> cases hm : mustDeliver tStart tEnd grace b <;> simp
      exact hab hk hm
  · simp [noEarly]

example : logOrdered faActor.log = true ∧ poolOrdered faSent = true ∧ noEarly 50 faSent = false ∧
    deadlineOrdered 50 1000 10 faSent = false := by decide

/-! ## 4. the whole per-actor check does not depend on the matching chosen -/

/-- `checkScenario` is the loop `go` over the actors, and for one actor `go` is: `eventsOf` on the actor's NORMALISED pool
(`normPool … = normalise (tStartOf a.log tEnd) tEnd grace (actorPool …)`), then `afterMatch` (replay, `sent` against `sendsOf`,
`compareOut`, delivery deadline) -/
theorem C17_oracle_scenario_unfold (actors : List ActorLog) (psent precv : List Dg) (observers : List Addr)
    (tEnd grace : Nat) (a : ActorLog) (rest : List ActorLog) (i : Nat) :
    checkScenario actors psent precv observers tEnd grace =
      checkScenario.go psent precv observers tEnd grace (actors.flatMap sendsOf) actors 0 ∧
    checkScenario.go psent precv observers tEnd grace (actors.flatMap sendsOf) (a :: rest) i =
      match eventsOf (normPool actors psent a tEnd grace) a.log 0 with
      | .error e => some (if logOrdered a.log then s!"actor={i} {e}" else s!"actor={i} log-not-time-ordered {e}")
      | .ok (evs, left) =>
        match afterMatch a precv observers tEnd grace i evs left with
        | some e => some e
        | none => checkScenario.go psent precv observers tEnd grace (actors.flatMap sendsOf) rest (i + 1) :=
  ⟨rfl, go_cons actors psent precv observers tEnd grace a rest i⟩

/-- WHICH feasible datagram backs an `on_msg` is irrelevant to the replay: for two lists of backing datagrams, the machine
accepts both logs or neither, and the final states differ at most in the ghost log `recvd` -/
theorem C17_oracle_replay_choice_irrelevant (aid : Nat) {log : List Entry} {ch ch' : List Dg}
    (h : Paired okDg (recvsOf log) ch) (h' : Paired okDg (recvsOf log) ch') :
    match run (relax (cfgOf aid)) init (expand (backed log ch)), run (relax (cfgOf aid)) init (expand (backed log ch')) with
    | some s, some s' => { s with recvd := [] } = { s' with recvd := [] }
    | none, none => True
    | _, _ => False := by
  have := run_forget _ (evsRel_expand (backed_rel aid h h')) init init rfl
  revert this
  cases run (relax (cfgOf aid)) init (expand (backed log ch)) <;>
    cases run (relax (cfgOf aid)) init (expand (backed log ch')) <;> exact fun h => h

example : Paired okDg (recvsOf faActor.log) [dg 1] ∧ Paired okDg (recvsOf faActor.log) [dg 100] ∧
    (run (relax (cfgOf faActor.id)) init (expand (backed faActor.log [dg 1]))).isSome = true :=
  ⟨⟨by decide, trivial⟩, ⟨by decide, trivial⟩, by decide⟩

/-- `C17_send_faithful` on the oracle's side: whatever datagrams back the `on_msg` entries, an accepted replay has executed
every command (`queue = []`) and the machine's `sent` IS `sendsOf` (destination, payload, in order) — so the
`internal-sent-mismatch` test of `checkScenario` never fires and `compareOut` compares the MACHINE's output to observers with
what was observed -/
theorem C17_oracle_send_faithful (a : ActorLog) {ch : List Dg} (hp : Paired okDg (recvsOf a.log) ch)
    {s : St Nat Nat Nat Nat} (h : run (relax (cfgOf a.id)) init (expand (backed a.log ch)) = some s) :
    s.queue = [] ∧ s.sent = (sendsOf a).map (fun d => (d.dst, d.bytes)) ∧
    ∀ observers : List Addr,
      ((s.sent.filter (fun p => observers.contains p.1)).map (fun p => (p.1, p.2)) !=
        ((sendsOf a).filter (fun d => observers.contains d.dst)).map (fun d => (d.dst, d.bytes))) = false :=
  ⟨(run_expand_sent _ _ init s rfl h).1, replay_sent a hp h, fun obs => sent_check obs a (replay_sent a hp h)⟩

example : (sendsOf ⟨idOf me, [.start 50 0 [.send 7 5, .send 7 13, .set 1 2 3]]⟩).map (fun d => (d.dst, d.bytes)) =
    [(addrOf 7, [77, 53])] := by decide

/-- what the per-actor check literally comes to once the receives are backed (by ANY datagrams `ch`): the machine accepts the
log, `compareOut` finds the datagrams `sendsOf` addresses to observers equal to the observed ones, and — the GRACE RULE — unless
the log is empty no left-over datagram parses, was sent at or after the first entry's time when that is `on_start` (else: after
the end of the observation, i.e. never) and at least `grace` before `tEnd` -/
theorem C17_oracle_actor_check_iff (a : ActorLog) (precv : List Dg) (observers : List Addr) (tEnd grace i : Nat)
    {ch left : List Dg} (hp : Paired okDg (recvsOf a.log) ch) :
    afterMatch a precv observers tEnd grace i (backed a.log ch) left = none ↔
      (run (relax (cfgOf a.id)) init (expand (backed a.log ch))).isSome = true ∧
      compareOut ((sendsOf a).filter (fun d => observers.contains d.dst))
        (precv.filter (fun d => d.src == addrOf a.id)) = none ∧
      (a.log.isEmpty = true ∨ ∀ d ∈ left,
        ¬((deMsg d.bytes).isSome = true ∧ d.t + grace ≤ tEnd ∧ tStartOf a.log tEnd ≤ d.t)) := by
  rw [afterMatch_none_iff a precv observers tEnd grace i hp, List.filter_eq_nil_iff]
  simp [mustDeliver, and_assoc]

/-- ACTOR-COMPLETE: if the log is time-ordered and SOME matching of the logged receives into the actor's pool makes the actor
pass every check of `o-trace`, then `checkScenario` passes this actor (goes on to the next one) -/
theorem C17_oracle_actor_complete (actors : List ActorLog) (psent precv : List Dg) (observers : List Addr)
    (tEnd grace : Nat) (a : ActorLog) (rest : List ActorLog) (i : Nat) {ch left : List Dg}
    (hlog : logOrdered a.log = true)
    (hM : Matching okDg (actorPool actors psent a) (recvsOf a.log) ch left)
    (hpass : afterMatch a precv observers tEnd grace i (backed a.log ch) left = none) :
    checkScenario.go psent precv observers tEnd grace (actors.flatMap sendsOf) (a :: rest) i =
      checkScenario.go psent precv observers tEnd grace (actors.flatMap sendsOf) rest (i + 1) := by
  rw [go_cons]
  have hE := exch_of_recvsOrdered (recvsOrdered_of_logOrdered hlog)
  have hM' : Matching okDg (normPool actors psent a tEnd grace) (recvsOf a.log) ch left := matching_normalise.2 hM
  have hpool : deadlineOrdered (tStartOf a.log tEnd) tEnd grace (normPool actors psent a tEnd grace) = true :=
    deadlineOrdered_normalise _ _ _ _
  cases hemp : a.log.isEmpty with
  | true =>
    -- nothing logged: no receives, the deadline is not applied
    obtain ⟨chg, leftg, hg⟩ := greedy_complete hE hM'
    rw [eventsOf_greedy_some a.log _ 0 hg]
    dsimp only
    rw [afterMatch_transfer a precv observers tEnd grace i hM.paired (greedy_sound hg).paired hpass
      (fun h => by rw [hemp] at h; cases h)]
  | false =>
    have h3 := ((afterMatch_none_iff a precv observers tEnd grace i hM.paired).1 hpass).2.2
    have hl : ∀ x ∈ left, mustDeliver (tStartOf a.log tEnd) tEnd grace x = false := by
      rcases h3 with h | h
      · rw [hemp] at h; cases h
      · intro x hx
        have := List.filter_eq_nil_iff.1 h x hx
        simpa using this
    obtain ⟨chg, leftg, hg, hlg⟩ := greedy_exchange hE (mustPrefix_of_deadlineOrdered hpool) hM' hl
    rw [eventsOf_greedy_some a.log _ 0 hg]
    dsimp only
    rw [afterMatch_transfer a precv observers tEnd grace i hM.paired (greedy_sound hg).paired hpass (fun _ => hlg)]

/-- ACTOR-SOUND (converse, no precondition): if `checkScenario` passes an actor, there IS a matching (the greedy one) that makes
the actor pass every check -/
theorem C17_oracle_actor_sound (actors : List ActorLog) (psent precv : List Dg) (observers : List Addr)
    (tEnd grace : Nat) (a : ActorLog) (rest : List ActorLog) (i : Nat)
    (h : checkScenario.go psent precv observers tEnd grace (actors.flatMap sendsOf) (a :: rest) i = none) :
    ∃ ch left, Matching okDg (actorPool actors psent a) (recvsOf a.log) ch left ∧
      afterMatch a precv observers tEnd grace i (backed a.log ch) left = none ∧
      checkScenario.go psent precv observers tEnd grace (actors.flatMap sendsOf) rest (i + 1) = none := by
  rw [go_cons] at h
  cases he : eventsOf (normPool actors psent a tEnd grace) a.log 0 with
  | error e => rw [he] at h; cases h
  | ok p =>
    obtain ⟨evs, left⟩ := p
    rw [he] at h
    dsimp only at h
    obtain ⟨ch, hm, rfl, _⟩ := C17_oracle_match_sound he
    cases ha : afterMatch a precv observers tEnd grace i (backed a.log ch) left with
    | some e => rw [ha] at h; cases h
    | none => rw [ha] at h; exact ⟨ch, left, matching_normalise.1 hm, ha, h⟩

-- non-vacuous: `C17_oracle_deadline_regression` (the hypotheses hold for `faActor` with the matching `[dg 100]`, `[dg 1]`)

/-- SCENARIO-COMPLETE / SOUND, for the driver's own `checkScenario`: if every actor's log is time-ordered (the ONLY
precondition), `o-trace` answers `ok` EXACTLY WHEN every actor has SOME matching of its logged receives into its pool (the
datagrams sent to it) that passes every check (replay accepted, `compareOut`, delivery deadline on the matching's own
left-over); the direction from `ok` to the matchings needs no precondition. -/
theorem C17_oracle_scenario_iff (actors : List ActorLog) (psent precv : List Dg) (observers : List Addr)
    (tEnd grace : Nat) (hpre : ∀ a ∈ actors, logOrdered a.log = true) :
    checkScenario actors psent precv observers tEnd grace = none ↔
      ∀ a ∈ actors, ∃ ch left, Matching okDg (actorPool actors psent a) (recvsOf a.log) ch left ∧
        ∀ i, afterMatch a precv observers tEnd grace i (backed a.log ch) left = none := by
  show checkScenario.go psent precv observers tEnd grace (actors.flatMap sendsOf) actors 0 = none ↔ _
  have key : ∀ (l : List ActorLog) (i : Nat), (∀ a ∈ l, a ∈ actors) →
      (checkScenario.go psent precv observers tEnd grace (actors.flatMap sendsOf) l i = none ↔
        ∀ a ∈ l, ∃ ch left, Matching okDg (actorPool actors psent a) (recvsOf a.log) ch left ∧
          ∀ i, afterMatch a precv observers tEnd grace i (backed a.log ch) left = none) := by
    intro l
    induction l with
    | nil => intro i _; simp [checkScenario.go]
    | cons a rest ih =>
      intro i hl
      have hrest : ∀ b ∈ rest, b ∈ actors := fun b hb => hl b (List.mem_cons_of_mem _ hb)
      constructor
      · intro h
        obtain ⟨ch, left, hm, ha, hr⟩ := C17_oracle_actor_sound actors psent precv observers tEnd grace a rest i h
        intro b hb
        rcases List.mem_cons.1 hb with rfl | hb
        · refine ⟨ch, left, hm, fun j => ?_⟩
          rw [afterMatch_none_iff _ _ _ _ _ _ hm.paired] at ha ⊢
          exact ha
        · exact (ih (i + 1) hrest).1 hr b hb
      · intro h
        obtain ⟨ch, left, hm, ha⟩ := h a (by simp)
        have h1 := hpre a (hl a (by simp))
        rw [C17_oracle_actor_complete actors psent precv observers tEnd grace a rest i h1 hm (ha i)]
        exact (ih (i + 1) hrest).2 (fun b hb => h b (List.mem_cons_of_mem _ hb))
  exact key actors 0 (fun _ h => h)

-- non-vacuous: `C17_oracle_deadline_regression`; both directions apply to it
example : checkScenario [faActor] faSent [] [] 1000 10 = none :=
  (C17_oracle_scenario_iff [faActor] faSent [] [] 1000 10 (by decide)).2 (by
    intro a ha
    simp only [List.mem_singleton] at ha
    subst ha
    exact ⟨[dg 100], [dg 1], C17_oracle_deadline_regression.2.2.1, fun i => by
      have hp : Paired okDg (recvsOf faActor.log) [dg 100] := ⟨by decide, trivial⟩
      have := C17_oracle_deadline_regression.2.2.2.1
      rw [afterMatch_none_iff _ _ _ _ _ _ hp] at this ⊢
      exact this⟩)

/-! ## 5. `compareOut` -/

/-- WHAT `compareOut` CHECKS (the driver's own function): the multiset of keys `src>dst:payload` of the datagrams `sendsOf`
addresses to observers equals the multiset of keys observed from this actor, and for every key the `k`-th earliest observation
is no earlier than the `k`-th earliest handler that sent it.  (`compareOut` / `sortStrs` used to sort with `Array.qsort`, whose
worker is a private definition of the Lean 4.33 core library — nothing could be proved about it; they now use
`List.mergeSort`.) -/
theorem C17_oracle_compareOut_keys (expected observed : List Dg) :
    compareOut expected observed = none ↔
      (expected.map dgKey).Perm (observed.map dgKey) ∧
      ∀ e ∈ expected, ∀ p ∈ (timesOf expected e).zip (timesOf observed e), p.1 ≤ p.2 :=
  compareOut_none_iff expected observed

-- non-vacuous: one datagram sent by the handler at 5 and observed at 9
example : compareOut [dg 5] [dg 9] = none := by
  rw [C17_oracle_compareOut_keys]
  have hk : dgKey (dg 9) = dgKey (dg 5) := rfl
  refine ⟨by simp [hk], ?_⟩
  intro e he p hp
  simp only [List.mem_singleton] at he
  subst he
  have ht : ∀ t, (dg t).t = t := fun _ => rfl
  simp [timesOf, sortNats, hk, ht] at hp
  subst hp
  decide

end SR.C17Match
