import SR.Proofs.Checker.Parents
import SR.Checker.Graph
/-!
# C03 (parent-map part) — what `discoveries()` / the visitor rebuild IS the path the machine carries

bfs.rs / on_demand.rs keep `generated : fingerprint ↦ Option<parent fingerprint>` (written only by insert-if-vacant)
and `discoveries : name ↦ fingerprint of the last state`; a path exists only when `reconstruct_path` walks the
parent pointers back and `Path::from_fingerprints` replays them.  The checker machine abstracts this by letting every
job carry its path.  `SR/Checker/Parents.lean` runs the real parent map in lock-step with the machine (`runP`);
the theorems below say that for EVERY choice list (every schedule, thread count, stop) the map has exactly the
machine's `generated` keys and `reconstructPath` of the last fingerprint of every pending / active / visited /
recorded path returns that very path, as an execution of the model — so C01_sound, C03_* (stated about the carried
paths) are statements about what the code returns.  Property theorems only; lemmas in
`SR/Proofs/Checker/Parents.lean`.
-/
namespace SR.C03
open SR SR.Checker SR.PathApi

variable {σ α : Type} (P : Params σ Nat α)

/-- conservative extension: the machine component of the lock-step run is the machine's run, untouched -/
theorem C03_parents_project (cs : List Choice) : (runP P cs).1 = run P cs := runP_fst cs

/-- the key set of the parent map is `generated`, in insertion order -/
theorem C03_parents_keys (cs : List Choice) : (runP P cs).2.map (·.1) = (run P cs).gen := by
  rw [← C03_parents_project]; exact keys_run cs

/-- hence `unique_state_count()` (= `generated.len()`) is the size of the machine's `gen` -/
theorem C03_parents_unique_count (cs : List Choice) : (runP P cs).2.length = (run P cs).gen.length := by
  rw [← C03_parents_keys, List.length_map]

/-- insert-if-vacant: no fingerprint is ever written twice … -/
theorem C03_parents_no_overwrite (cs : List Choice) : ((runP P cs).2.map (·.1)).Nodup := by
  rw [C03_parents_keys]; exact (ninv_run (P := P) cs).genNodup

/-- … and the map only grows at its end: whatever was in it stays, unchanged, for the rest of the run -/
theorem C03_parents_append_only (cs cs' : List Choice) :
    ∃ ext, (runP P (cs ++ cs')).2 = (runP P cs).2 ++ ext := by
  rw [runP_append]; exact runPFrom_append _ cs'

/-- **Reconstruction.**  With an injective fingerprint, at any moment of any run, for every path `p` that is
    (a) the path of a pending job, (b) the path of the job a worker holds, (c) a path shown to the visitor, or
    (d) a recorded discovery: `reconstruct_path` applied to the fingerprint of `p`'s last state (what bfs.rs /
    on_demand.rs store in the job / in `discoveries`) does not panic and returns an execution of the model whose
    state sequence is `p`. -/
theorem C03_parents_reconstruct (inj : ∀ x y, P.key x = P.key y → x = y) (cs : List Choice) (p : List σ)
    (hp : (∃ j ∈ (run P cs).frontier, j.path = p) ∨ (∃ a ∈ (run P cs).active, a.job.path = p) ∨
          p ∈ (run P cs).visits ∨ (∃ e ∈ (run P cs).disc, e.2 = p)) :
    ∃ q s, p.getLast? = some s ∧ reconstructPath P.M P.key (runP P cs).2 (P.key s) = some q ∧
      intoStates q = p ∧ IsExec P.M q := by
  have h := pinv_run (P := P) inj cs
  rw [C03_parents_project] at h
  exact pinv_reconstruct inj h p hp

/-- the same at every LATER moment (the Explorer / `discoveries()` may ask long after the path was recorded or
    visited, even if the discovery was replaced meanwhile): later inserts never change the answer -/
theorem C03_parents_reconstruct_later (inj : ∀ x y, P.key x = P.key y → x = y) (cs cs' : List Choice) (p : List σ)
    (hp : (∃ j ∈ (run P cs).frontier, j.path = p) ∨ (∃ a ∈ (run P cs).active, a.job.path = p) ∨
          p ∈ (run P cs).visits ∨ (∃ e ∈ (run P cs).disc, e.2 = p)) :
    ∃ q s, p.getLast? = some s ∧ reconstructPath P.M P.key (runP P (cs ++ cs')).2 (P.key s) = some q ∧
      intoStates q = p ∧ IsExec P.M q := by
  have h := pinv_run (P := P) inj cs
  rw [C03_parents_project] at h
  obtain ⟨q, s, hl, hq, hst, hex⟩ := pinv_reconstruct inj h p hp
  obtain ⟨ext, hext⟩ := C03_parents_append_only P cs cs'
  refine ⟨q, s, hl, ?_, hst, hex⟩
  rw [hext, pinv_reconstruct_stable h p hp s hl ext]
  exact hq

/-- clause (d) spelled out for `discoveries()`: the path rebuilt for a recorded discovery is the recorded one -/
theorem C03_parents_discovery (inj : ∀ x y, P.key x = P.key y → x = y) (cs : List Choice) :
    ∀ e ∈ (run P cs).disc, ∃ q s, e.2.getLast? = some s ∧
      reconstructPath P.M P.key (runP P cs).2 (P.key s) = some q ∧ intoStates q = e.2 ∧ IsExec P.M q :=
  fun e he => C03_parents_reconstruct P inj cs e.2 (Or.inr (Or.inr (Or.inr ⟨e, he, rfl⟩)))

/-- clause (c) spelled out for the visitor -/
theorem C03_parents_visit (inj : ∀ x y, P.key x = P.key y → x = y) (cs : List Choice) :
    ∀ p ∈ (run P cs).visits, ∃ q s, p.getLast? = some s ∧
      reconstructPath P.M P.key (runP P cs).2 (P.key s) = some q ∧ intoStates q = p ∧ IsExec P.M q :=
  fun p hp => C03_parents_reconstruct P inj cs p (Or.inr (Or.inr (Or.inl hp)))

/-! ### Non-vacuity and why insert-if-vacant matters: the diamond `0→1, 0→2, 1→3, 2→3` -/

def diamond : Graph :=
  { n := 4, init := [0], adj := [[some 1, some 2], [some 3], [some 3], []], bnd := [true, true, true, true] }

def diamondParams : Params Nat Nat Nat :=
  { M := diamond.toSys, props := [{ exp := .always, cond := fun s => s != 3 }], key := id, cfg := {},
    finishMatches := fun _ => false }

/-- one worker evaluates and expands state 0 (level 1) -/
def csLevel1 : List Choice :=
  [.take 0, .evalProp 0 false, .finishProps 0, .expand 0 false, .expand 0 false, .expand 0 false]

/-- … then state 1 (it generates 3), then state 2 up to the point where it meets 3 again -/
def csSeq : List Choice :=
  csLevel1 ++ [.take 0, .evalProp 0 false, .finishProps 0, .expand 0 false, .expand 0 false,
               .take 0, .evalProp 0 false, .finishProps 0, .expand 0 false]

/-- two workers hold 1 and 2 at the same time; the worker on 2 wins the race for 3; then 3 is evaluated and the
    discovery of `always (≠ 3)` is recorded -/
def csRace : List Choice :=
  csLevel1 ++ [.take 0, .take 0, .evalProp 0 false, .evalProp 1 false, .finishProps 0, .finishProps 1,
               .expand 1 false, .expand 0 false, .take 0, .evalProp 2 false]

/-- the hypothesis of `C03_parents_reconstruct` holds here -/
example : ∀ x y, diamondParams.key x = diamondParams.key y → x = y := fun _ _ h => h

/-- two levels deep: the pending job of 3 carries `[0, 1, 3]`, the map is `0 ↦ ⊥, 1 ↦ 0, 2 ↦ 0, 3 ↦ 1` and
    `reconstruct_path 3` is a 3-state path, the one carried -/
example :
    (run diamondParams csSeq).frontier.map (·.path) = [[0, 1, 3]] ∧
    (runP diamondParams csSeq).2 = [(0, none), (1, some 0), (2, some 0), (3, some 1)] ∧
    (reconstructPath diamondParams.M diamondParams.key (runP diamondParams csSeq).2 3).map intoStates
      = some [0, 1, 3] := by decide

/-- another schedule (two workers, the other one wins): now the job, the visit and the recorded discovery are
    `[0, 2, 3]`, and so is the reconstructed path -/
example :
    (run diamondParams csRace).disc = [(0, [0, 2, 3])] ∧
    (run diamondParams csRace).visits.head? = some [0, 2, 3] ∧
    (runP diamondParams csRace).2 = [(0, none), (1, some 0), (2, some 0), (3, some 2)] ∧
    (reconstructPath diamondParams.M diamondParams.key (runP diamondParams csRace).2 3).map intoStates
      = some [0, 2, 3] := by decide

/-- **Why insert-if-vacant matters.**  If `check_block` wrote `generated.insert(fp, Some(parent))` unconditionally
    (`runPOverwrite`: the second parent wins), then on the diamond, after the sequential schedule `csSeq`, the
    pending job of state 3 — created by the FIRST parent — carries `[0, 1, 3]`, but `reconstruct_path` of its
    fingerprint returns `[0, 2, 3]`: the reconstructed path is no longer the one the job was created along (depth,
    ebits and the theorems about `job.path` would speak about a different path than the one reported). -/
theorem C03_parents_overwrite_breaks :
    (runPOverwrite diamondParams csSeq).1.frontier.map (fun j => (j.st, j.path)) = [(3, [0, 1, 3])] ∧
    (reconstructPath diamondParams.M diamondParams.key (runPOverwrite diamondParams csSeq).2 3).map intoStates
      = some [0, 2, 3] ∧
    (reconstructPath diamondParams.M diamondParams.key (runP diamondParams csSeq).2 3).map intoStates
      = some [0, 1, 3] := by decide

end SR.C03
