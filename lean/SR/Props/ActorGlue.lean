import SR.Actor.Glue
/-!
# Actor glue — property theorems (coverage-gap closing, DESIGN §13c)

Model: `SR/Actor/Glue.lean`.  Theorem prefixes name the property whose code the helper belongs to:
`C15_` actor.rs helpers (`majority`, `peer_ids`), `C06_` `model_peers` (actor/model.rs), `C07_` network
names / `FromStr` (actor/network.rs), `C18_` register-harness client start-up.
-/
namespace SR.CActorGlue
open SR.Glue

/-! ## majority -/

/-- `majority n` is characterised by: strictly more than half, and not one more than needed. -/
theorem C15_majority_spec (n m : Nat) : m = majority n ↔ (n < 2 * m ∧ 2 * m ≤ n + 2) := by
  unfold majority; omega

/-- a duplicate-free list of numbers below `n` has at most `n` elements -/
theorem C15_nodup_bounded_length : ∀ (n : Nat) (l : List Nat), l.Nodup → (∀ x ∈ l, x < n) → l.length ≤ n := by
  intro n
  induction n with
  | zero =>
    intro l _ hb
    cases l with
    | nil => simp
    | cons a t => exact absurd (hb a (by simp)) (Nat.not_lt_zero _)
  | succ n ih =>
    intro l hnd hb
    have h1 : (l.erase n).Nodup := hnd.erase n
    have h2 : ∀ x ∈ l.erase n, x < n := by
      intro x hx
      have hxl : x ∈ l := List.mem_of_mem_erase hx
      have hne : x ≠ n := by
        intro e; subst e
        exact (List.Nodup.mem_erase_iff hnd).1 hx |>.1 rfl
      have := hb x hxl
      omega
    have h3 := ih (l.erase n) h1 h2
    have h4 : l.length ≤ (l.erase n).length + 1 := by
      rw [List.length_erase]; split <;> omega
    omega

/-- Two majorities of the same cluster intersect: any two duplicate-free sets of members of a cluster of size `n`
that both reach `majority n` have a common member. -/
theorem C15_majority_intersect (n : Nat) (a b : List Nat) (ha : a.Nodup) (hb : b.Nodup)
    (hab : ∀ x ∈ a, x < n) (hbb : ∀ x ∈ b, x < n)
    (hma : majority n ≤ a.length) (hmb : majority n ≤ b.length) : ∃ x, x ∈ a ∧ x ∈ b := by
  apply Classical.byContradiction
  intro hno
  have hdis : ∀ x, x ∈ a → x ∉ b := fun x hx hxb => hno ⟨x, hx, hxb⟩
  have hnd : (a ++ b).Nodup := by
    rw [List.nodup_append]
    exact ⟨ha, hb, fun x hx y hy e => hdis x hx (e ▸ hy)⟩
  have hbd : ∀ x ∈ a ++ b, x < n := by
    intro x hx
    rcases List.mem_append.1 hx with h | h
    · exact hab x h
    · exact hbb x h
  have := C15_nodup_bounded_length n (a ++ b) hnd hbd
  rw [List.length_append] at this
  unfold majority at hma hmb
  omega

/-- `majority n` is the least such threshold: one less admits two disjoint sets. -/
theorem C15_majority_minimal (n : Nat) :
    ∃ a b : List Nat, a.Nodup ∧ b.Nodup ∧ (∀ x ∈ a, x < n) ∧ (∀ x ∈ b, x < n) ∧
      a.length = majority n - 1 ∧ b.length = majority n - 1 ∧ ∀ x, x ∈ a → x ∉ b := by
  refine ⟨List.range (n / 2), List.range' (n / 2) (n / 2), List.nodup_range, List.nodup_range', ?_, ?_, ?_, ?_, ?_⟩
  · intro x hx; have := List.mem_range.1 hx; omega
  · intro x hx; have := List.mem_range'_1.1 hx; omega
  · simp [majority]
  · simp [majority]
  · intro x hx hx'
    have := List.mem_range.1 hx
    have := List.mem_range'_1.1 hx'
    omega

example : majority 5 = 3 ∧ majority 4 = 3 ∧ majority 0 = 1 := by decide

/-! ## peer_ids -/

/-- `peer_ids` yields exactly the ids different from `self`, in their original order and multiplicity. -/
theorem C15_peer_ids_spec (s : Nat) (ids : List Nat) :
    (∀ x, x ∈ peerIds s ids ↔ x ∈ ids ∧ x ≠ s) ∧
    (peerIds s ids).Sublist ids ∧
    s ∉ peerIds s ids ∧
    (∀ x, x ≠ s → (peerIds s ids).count x = ids.count x) ∧
    (peerIds s ids).length = ids.length - ids.count s := by
  unfold peerIds
  refine ⟨?_, List.filter_sublist, ?_, ?_, ?_⟩
  · intro x; simp
  · simp
  · intro x hx
    rw [List.count_filter]
    simpa using hx
  · induction ids with
    | nil => simp
    | cons a t ih =>
      have hc : List.count s t ≤ t.length := List.count_le_length
      by_cases h : a = s
      · subst h; simp [ih]
      · have h' : (a != s) = true := by simpa using h
        have h'' : (a == s) = false := by simpa using h
        simp only [List.filter_cons, h', if_true, List.length_cons, List.count_cons, h'', ih]
        simp
        omega

/-- The declarative reading used by the oracle determines the result: a sublist of `ids` that avoids `s` and has
dropped only as many elements as `s` occurs IS `peer_ids s ids`. -/
theorem C15_peer_ids_unique (s : Nat) (ids l : List Nat) (hsub : l.Sublist ids) (hs : s ∉ l)
    (hlen : l.length = ids.length - ids.count s) : l = peerIds s ids := by
  unfold peerIds
  induction hsub with
  | slnil => rfl
  | @cons l t a hsub ih =>
    -- `a` was dropped: it must be `s`
    have hle : l.length ≤ (t.filter (fun o => o != s)).length := by
      have : l.Sublist (t.filter (fun o => o != s)) := by
        have := hsub.filter (fun o => o != s)
        rwa [List.filter_eq_self.2 (by intro x hx; simp only [bne_iff_ne, ne_eq]; intro e; exact hs (e ▸ hx))] at this
      exact this.length_le
    have hflen : (t.filter (fun o => o != s)).length = t.length - t.count s := (C15_peer_ids_spec s t).2.2.2.2
    have hc : List.count s t ≤ t.length := List.count_le_length
    by_cases h : a = s
    · subst h
      have : l.length = t.length - t.count a := by
        simp at hlen; omega
      simp [ih hs this]
    · exfalso
      have h'' : (a == s) = false := by simpa using h
      simp [List.count_cons, h''] at hlen
      omega
  | @cons_cons l t a hsub ih =>
    have ha : a ≠ s := fun e => hs (e ▸ List.mem_cons_self)
    have hs' : s ∉ l := fun h => hs (List.mem_cons_of_mem _ h)
    have h' : (a != s) = true := by simpa using ha
    have h'' : (a == s) = false := by simpa using ha
    have hc : List.count s t ≤ t.length := List.count_le_length
    have : l.length = t.length - t.count s := by
      simp [List.count_cons, h''] at hlen; omega
    simp [h', ih hs' this]

example : peerIds 1 [0, 1, 2, 1, 3] = [0, 2, 3] := by decide

/-! ## model_peers -/

/-- `model_peers i n` = all of `0..n` except `i`, ascending: it is `peer_ids i (0..n)`, has `n - 1` entries for a
member `i < n` (all `n` otherwise), no duplicates, and never contains `i`. -/
theorem C06_model_peers_spec (i n : Nat) :
    modelPeers i n = peerIds i (List.range n) ∧
    (∀ j, j ∈ modelPeers i n ↔ j < n ∧ j ≠ i) ∧
    (modelPeers i n).Pairwise (· < ·) ∧
    (modelPeers i n).length = (if i < n then n - 1 else n) := by
  refine ⟨rfl, ?_, ?_, ?_⟩
  · intro j; simp [modelPeers]
  · exact List.Pairwise.filter _ List.pairwise_lt_range
  · have h := (C15_peer_ids_spec i (List.range n)).2.2.2.2
    show (peerIds i (List.range n)).length = _
    rw [h, List.length_range, List.count_range]
    split <;> omega

example : modelPeers 1 4 = [0, 2, 3] ∧ modelPeers 7 3 = [0, 1, 2] := by decide

/-! ## network names -/

/-- `Network::names()` lists the three kinds once each, every listed name parses to its kind, and nothing else
parses. -/
theorem C07_net_names :
    names = [NetKind.ordered.str, NetKind.dup.str, NetKind.nondup.str] ∧
    names.Nodup ∧
    (∀ k : NetKind, fromStr k.str = some k ∧ k.str ∈ names) ∧
    (∀ s : String, s ∈ names ↔ (fromStr s).isSome) ∧
    (∀ s k, fromStr s = some k → s = k.str) := by
  refine ⟨by decide, by decide, ?_, ?_, ?_⟩
  · intro k; cases k <;> exact ⟨by decide, by decide⟩
  · intro s
    have hn : names = ["ordered", "unordered_duplicating", "unordered_nonduplicating"] := by decide
    rw [hn]
    unfold fromStr
    constructor
    · intro h
      simp only [List.mem_cons, List.not_mem_nil, or_false] at h
      rcases h with h | h | h <;> subst h <;> decide
    · intro h
      by_cases h1 : s = "ordered"
      · simp [h1]
      · by_cases h2 : s = "unordered_duplicating"
        · simp [h2]
        · by_cases h3 : s = "unordered_nonduplicating"
          · simp [h3]
          · simp [h1, h2, h3] at h
  · intro s k h
    unfold fromStr at h
    by_cases h1 : s = "ordered"
    · simp [h1] at h; subst h; exact h1
    · by_cases h2 : s = "unordered_duplicating"
      · simp [h2] at h; subst h; exact h2
      · by_cases h3 : s = "unordered_nonduplicating"
        · simp [h3] at h; subst h; exact h3
        · simp [h1, h2, h3] at h

/-! ## register-harness client start-up -/

/-- A client placed before the servers panics at start-up ("clients must be added after servers"). -/
theorem C18_client_before_servers_panics (p sc index : Nat) (h : index < sc) : clientStart p sc index = none := by
  simp [clientStart, h]

/-- A client placed after `sc > 0` servers (at most 190 clients, so that the value stays a `u8`) starts without
panic; with `put_count = 0` it sends nothing and awaits nothing; otherwise it sends exactly one `Put` whose request
id is its own index, whose value is `'A' + (index - sc)`, to a SERVER (`index % sc < sc`), and awaits that id. -/
theorem C18_client_start (p sc index : Nat) (hsc : 0 < sc) (h : sc ≤ index) (hv : index - sc ≤ 190) :
    (p = 0 → clientStart p sc index = some ⟨none, 0, []⟩) ∧
    (0 < p → clientStart p sc index = some ⟨some index, 1, [(index % sc, index, 65 + (index - sc))]⟩ ∧
      index % sc < sc) := by
  have h1 : ¬ index < sc := by omega
  have h2 : (index - sc) % 256 = index - sc := Nat.mod_eq_of_lt (by omega)
  have h3 : ¬ 65 + (index - sc) > 255 := by omega
  have h4 : ¬ sc = 0 := by omega
  constructor
  · intro hp; simp [clientStart, h1, hp]
  · intro hp
    have h5 : ¬ p = 0 := by omega
    refine ⟨?_, Nat.mod_lt _ hsc⟩
    simp only [clientStart, h1, h5, h2, h3, h4, if_false]

/-- The panics of the client start-up are exactly: placed before a server, or (with puts) no server at all, or a
value beyond `u8`. -/
theorem C18_client_start_panic_iff (p sc index : Nat) :
    clientStart p sc index = none ↔
      index < sc ∨ (0 < p ∧ sc ≤ index ∧ (sc = 0 ∨ 190 < (index - sc) % 256)) := by
  unfold clientStart
  by_cases h1 : index < sc
  · simp [h1]
  · by_cases h2 : p = 0
    · simp [h1, h2]
    · have hp : 0 < p := by omega
      have hi : sc ≤ index := by omega
      by_cases h3 : 65 + (index - sc) % 256 > 255
      · have : 190 < (index - sc) % 256 := by omega
        simp only [h1, h2, h3, if_false, if_true, true_iff]
        exact Or.inr ⟨hp, hi, Or.inr this⟩
      · have h3' : ¬ 190 < (index - sc) % 256 := by omega
        by_cases h4 : sc = 0
        · simp only [h1, h2, h3, if_false, if_pos h4, true_iff]
          exact Or.inr ⟨hp, hi, Or.inl h4⟩
        · simp only [h1, h2, h3, h4, if_false]
          constructor
          · intro h; cases h
          · intro h
            rcases h with h | ⟨_, _, h | h⟩
            · exact absurd h (by simp)
            · exact absurd h (by simp)
            · exact absurd h h3'

example : clientStart 2 3 4 = some ⟨some 4, 1, [(1, 4, 66)]⟩ := by decide
example : clientStart 1 3 2 = none := by decide

end SR.CActorGlue
