import SR.Proofs.Checker.MSim
import SR.Drv.SimTrace
import SR.Props.C11
import SR.Checker.Graph
/-!
# C03 / C11 for the MULTI-THREADED simulation checker, as one machine

Property theorems only; machine `SR/Checker/MSim.lean` (k workers sharing the `discoveries` map, `state_count` and the
shutdown flag; one step per operation on shared state), invariant `SR/Proofs/Checker/MSim.lean`, trace validator
`SR/Drv/SimTrace.lean`.  `(MSim.run P k fs).disc` is the shared map at ANY moment of ANY run: `fs` is an arbitrary step
list — every interleaving of any number of workers, every chooser (the `start` / `advance` steps carry what it chose),
traces cut anywhere by the shutdown flag (`timeout`, `cut`) or by a panic in model code (`panic`), workers leaving for any
reason.  Compared with `C03_sim_worker` / `C03_sim_shared_map` (one worker + an oracle for the colleagues) nothing is
left to an oracle: the reads of the shared map are reads of THE map of the machine.

Hypothesis `hkc` as in `C03_sim`: states with the same identity agree on the property conditions (no fingerprint
collisions; under symmetry the invariance of the conditions).
-/
namespace SR.C03
open SR SR.Checker

variable {σ κ α : Type} [DecidableEq σ] [DecidableEq κ] (P : Params σ κ α)

/-- **Every entry of the shared discoveries map of a multi-threaded simulation, at any moment of any run, is a genuine
    witness** in the sense of `C03_sim`: a real in-boundary path for an existing property; always / sometimes: the last
    state violates / satisfies; eventually: no state satisfies and the path is terminal or closes a cycle. -/
theorem C03_msim
    (hkc : ∀ a b, P.M.Reach a → P.M.Reach b → P.key a = P.key b → ∀ pr ∈ P.props, pr.cond a = pr.cond b)
    (k : Nat) (fs : List (MSim.Step σ)) :
    ∀ e ∈ (MSim.run P k fs).disc,
      P.M.IsPath e.2 ∧ e.1 < P.props.length ∧
      (∀ pr, P.props[e.1]? = some pr →
        (pr.exp = .always → ∃ s, e.2.getLast? = some s ∧ pr.cond s = false) ∧
        (pr.exp = .sometimes → ∃ s, e.2.getLast? = some s ∧ pr.cond s = true) ∧
        (pr.exp = .eventually → (∀ t ∈ e.2, pr.cond t = false) ∧
          ((∃ t, e.2.getLast? = some t ∧ P.M.succB t = []) ∨ Sim.CyclesBack P e.2))) := by
  intro e he
  have h := MSim.run_discOk (P := P) hkc k fs e he
  exact ⟨h.path, h.idx, fun pr hpr => ⟨(h.wit pr hpr).1, (h.wit pr hpr).2, fun hev => h.ev pr hpr hev⟩⟩

/-- the same with the predicate of `C03_sim_worker` -/
theorem C03_msim_discOk
    (hkc : ∀ a b, P.M.Reach a → P.M.Reach b → P.key a = P.key b → ∀ pr ∈ P.props, pr.cond a = pr.cond b)
    (k : Nat) (fs : List (MSim.Step σ)) : Sim.DiscOk P (MSim.run P k fs).disc :=
  MSim.run_discOk hkc k fs

/-- **No false alarm, multi-threaded simulation, every schedule**: if the shared map holds a counterexample for an
    eventually property, there is a maximal in-boundary path (terminal, or a lasso) on which the condition never holds. -/
theorem C11_msim_no_false_alarm
    (hkc : ∀ a b, P.M.Reach a → P.M.Reach b → P.key a = P.key b → ∀ pr ∈ P.props, pr.cond a = pr.cond b)
    (k : Nat) (fs : List (MSim.Step σ)) (i : Nat) (pr : Prop' σ) (hpr : P.props[i]? = some pr)
    (hexp : pr.exp = .eventually) (hd : hasDisc (MSim.run P k fs).disc i = true) :
    ∃ p, C11.MaxPathAvoidingSim P pr p := by
  unfold hasDisc at hd
  obtain ⟨e, he, hei⟩ := List.any_eq_true.1 hd
  have hei : e.1 = i := by simpa using hei
  subst hei
  have h := MSim.run_discOk (P := P) hkc k fs e he
  exact ⟨e.2, h.path, (h.ev pr hpr hexp).1, (h.ev pr hpr hexp).2⟩

/-- the counterexample the map holds IS such a path -/
theorem C11_msim_counterexample_is_maximal
    (hkc : ∀ a b, P.M.Reach a → P.M.Reach b → P.key a = P.key b → ∀ pr ∈ P.props, pr.cond a = pr.cond b)
    (k : Nat) (fs : List (MSim.Step σ)) (e : Nat × List σ) (he : e ∈ (MSim.run P k fs).disc) (pr : Prop' σ)
    (hpr : P.props[e.1]? = some pr) (hexp : pr.exp = .eventually) : C11.MaxPathAvoidingSim P pr e.2 := by
  have h := MSim.run_discOk (P := P) hkc k fs e he
  exact ⟨h.path, (h.ev pr hpr hexp).1, (h.ev pr hpr hexp).2⟩

/-- **`state_count` = the number of `enter` steps that counted.** -/
theorem C03_msim_state_count (k : Nat) (fs : List (MSim.Step σ)) :
    (MSim.run P k fs).stateCount = MSim.counted P (MSim.init k) fs := by
  have := MSim.runFrom_count (P := P) fs (MSim.init k)
  simpa [MSim.run, MSim.init] using this

/-- … where a step counts iff it is the `enter` step of a worker at the top of its trace loop whose current state passes
    the depth test, the boundary test and the seen test (`enterOut = counted`) -/
theorem C03_msim_counts_iff (f : MSim.Step σ) (s : MSim.St σ κ) :
    MSim.counts P f s = true ↔
      ∃ w t, f = .enter w ∧ s.ws[w]? = some (MSim.WSt.busy t) ∧ t.ph = .top ∧ MSim.enterOut P t = .counted :=
  MSim.counts_iff

/-- Only `applyProp` (a witness of an always / sometimes property) and `recordOne` (the recording loop after "loop found"
    / "no action left") write to the shared map, and they insert the path of the worker's own trace.  In particular a
    trace that is cut by the shutdown flag, stopped by the depth limit, started outside the boundary or ended because
    everything is discovered records nothing. -/
theorem C03_msim_only_inserts (f : MSim.Step σ) (s s' : MSim.St σ κ) (h : MSim.step P f s = some s') :
    s'.disc = s.disc ∨
    ∃ w i t, (f = .applyProp w i ∨ f = .recordOne w i) ∧ s.ws[w]? = some (MSim.WSt.busy t) ∧
      s'.disc = discInsert s.disc i t.path :=
  MSim.step_disc h

/-- a property that is discovered stays discovered, whatever happens next (so a worker that has read "discovered" and
    logs it later, and `finish_when` evaluated on a concurrent iteration of the map, are consistent with the map at the
    moment of the log entry) -/
theorem C03_msim_discovered_stays (s : MSim.St σ κ) (fs : List (MSim.Step σ)) (i : Nat)
    (hd : hasDisc s.disc i = true) : hasDisc (MSim.runFrom P s fs).disc i = true :=
  MSim.runFrom_hasDisc fs s hd

/-- **The trace validator accepts only runs of the machine.**  `SR/Drv/SimTrace.lean` (driver command `tvsim`) replays the
    entries recorded by the `TR_SIM_*` hooks during a real multi-threaded `spawn_simulation` run; if it accepts the trace,
    the state it ends in is the state of a run `MSim.run P k fs` — so the theorems above hold of the very run that was
    observed (and its final count and discoveries, which the check compares with what the checker reported, are those of
    that run). -/
theorem C03_msim_trace_validation_sound (P : Params Nat Nat Nat) (k : Nat) (es : List Drv.SimTrace.Ev)
    (x : MSim.St Nat Nat) (h : Drv.SimTrace.replay P (MSim.init k) 0 es = .ok x) :
    ∃ fs : List (MSim.Step Nat), x = MSim.run P k fs :=
  Drv.SimTrace.isRun_replay P es _ x 0 (Drv.SimTrace.isRun_refl P _) h

/-- hence: the discoveries the validator answers with are genuine witnesses, and its count is the number of counting
    `enter` steps of that run -/
theorem C03_msim_validated_run (P : Params Nat Nat Nat)
    (hkc : ∀ a b, P.M.Reach a → P.M.Reach b → P.key a = P.key b → ∀ pr ∈ P.props, pr.cond a = pr.cond b)
    (k : Nat) (es : List Drv.SimTrace.Ev) (x : MSim.St Nat Nat)
    (h : Drv.SimTrace.replay P (MSim.init k) 0 es = .ok x) :
    Sim.DiscOk P x.disc ∧ ∃ fs : List (MSim.Step Nat), x.stateCount = MSim.counted P (MSim.init k) fs := by
  obtain ⟨fs, rfl⟩ := C03_msim_trace_validation_sound P k es x h
  exact ⟨MSim.run_discOk hkc k fs, fs, C03_msim_state_count P k fs⟩

/-! ### Non-vacuity: two workers racing on one property

`0 → {1, 2}`, one property `sometimes (s ≠ 0)`.  Worker 0 walks to 1, worker 1 to 2.  Both read the shared map before
either inserts: both insert, the later insert wins (`raceBoth`).  If worker 1 reads after worker 0's insert it skips the
property and its trace ends with "everything discovered" (`raceSkip`).  Both are runs of the same machine. -/

def raceGraph : Graph :=
  { n := 3, init := [0], adj := [[some 1, some 2], [], []], bnd := [true, true, true] }

def raceParams : Params Nat Nat Nat :=
  { M := raceGraph.toSys, props := [{ exp := .sometimes, cond := fun s => s != 0 }], key := id,
    cfg := { target := some 100 }, finishMatches := fun d => d.length == 1 }

def raceCommon : List (MSim.Step Nat) :=
  [.start 0 0, .start 1 0, .enter 0, .enter 1,
   .evalProp 0 0, .evalProp 1 0, .applyProp 0 0, .applyProp 1 0,        -- state 0 is no witness: awaited
   .finishProps 0, .finishProps 1, .advance 0 (some 1), .advance 1 (some 2), .enter 0, .enter 1]

def raceBoth : List (MSim.Step Nat) :=
  raceCommon ++
  [.evalProp 0 0, .evalProp 1 0,                                         -- both reads: nothing there
   .applyProp 0 0, .applyProp 1 0,                                       -- both insert; worker 1's path replaces worker 0's
   .finishProps 0, .finishProps 1, .leave 0 .finish, .leave 1 .finish]

def raceSkip : List (MSim.Step Nat) :=
  raceCommon ++
  [.evalProp 0 0, .applyProp 0 0,                                        -- worker 0 reads and inserts
   .evalProp 1 0,                                                        -- worker 1 reads: discovered, skipped
   .finishProps 0, .finishProps 1, .leave 0 .finish, .leave 1 .finish]

example : (MSim.run raceParams 2 raceBoth).disc = [(0, [0, 2])] ∧ (MSim.run raceParams 2 raceBoth).stateCount = 4 ∧
    MSim.allLeft (MSim.run raceParams 2 raceBoth) = true ∧ MSim.counted raceParams (MSim.init 2) raceBoth = 4 := by
  decide

example : (MSim.run raceParams 2 raceSkip).disc = [(0, [0, 1])] ∧ (MSim.run raceParams 2 raceSkip).stateCount = 4 ∧
    MSim.allLeft (MSim.run raceParams 2 raceSkip) = true := by decide

/-- every step of the two runs is enabled (none is skipped by `runFrom`) -/
def allEnabled (P : Params Nat Nat Nat) : MSim.St Nat Nat → List (MSim.Step Nat) → Bool
  | _, [] => true
  | s, f :: fs => match MSim.step P f s with
    | none => false
    | some s' => allEnabled P s' fs

example : allEnabled raceParams (MSim.init 2) raceBoth = true ∧ allEnabled raceParams (MSim.init 2) raceSkip = true := by
  decide

/-- the hypothesis of `C03_msim` holds of the example (`key = id`) -/
example : ∀ a b, raceParams.M.Reach a → raceParams.M.Reach b → raceParams.key a = raceParams.key b →
    ∀ pr ∈ raceParams.props, pr.cond a = pr.cond b := by
  intro a b _ _ h pr _; simp only [raceParams, id] at h; rw [h]

/-! A cut trace records nothing: `0 → 1`, `eventually (s = 5)` (never holds).  Uncut, the trace ends in the terminal state
1 and records the counterexample `[0, 1]`; with the timeout firing while the worker is on its way, the shutdown flag is
seen at the top of the loop and nothing is recorded — the worker then leaves for the shutdown. -/

def cutGraph : Graph := { n := 2, init := [0], adj := [[some 1], []], bnd := [true, true] }

def cutParams : Params Nat Nat Nat :=
  { M := cutGraph.toSys, props := [{ exp := .eventually, cond := fun s => s == 5 }], key := id,
    cfg := { timeout := true }, finishMatches := fun d => d.length == 1 }

def cutHead : List (MSim.Step Nat) :=
  [.start 0 0, .enter 0, .evalProp 0 0, .applyProp 0 0, .finishProps 0, .advance 0 (some 1)]

example : (MSim.run cutParams 1 (cutHead ++ [.enter 0, .evalProp 0 0, .applyProp 0 0, .finishProps 0, .advance 0 none,
    .recordOne 0 0, .endTrace 0, .leave 0 .finish])).disc = [(0, [0, 1])] := by decide

example : (MSim.run cutParams 1 (cutHead ++ [.timeout, .cut 0, .cont 0, .leave 0 .shutdown])).disc = [] ∧
    MSim.allLeft (MSim.run cutParams 1 (cutHead ++ [.timeout, .cut 0, .cont 0, .leave 0 .shutdown])) = true ∧
    allEnabled cutParams (MSim.init 1) (cutHead ++ [.timeout, .cut 0, .cont 0, .leave 0 .shutdown]) = true := by decide

/-- without the flag the `cut` step is not enabled -/
example : MSim.step cutParams (.cut 0) (MSim.run cutParams 1 cutHead) = none := by decide

end SR.C03
