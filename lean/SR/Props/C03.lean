import SR.Proofs.Checker.Eventually
import SR.Proofs.Checker.Sim
import SR.Checker.Sched
import SR.Checker.Graph
/-!
# C03 — every reported discovery is a genuine witness path

Property theorems only; model `SR/Checker/Machine.lean` (bfs / dfs / dfs+symmetry / on-demand, any thread
count), invariants `SR/Proofs/Checker/{Sound,Eventually}.lean`.  `(run P cs).disc` is the `discoveries` map at
ANY moment of ANY schedule (`cs` arbitrary: every interleaving, stale reads of the discoveries map, every stop
reason), so "at any moment after join" is a special case.  The simulation checker is a separate machine
(`SR/Checker/Sim.lean`, theorems `C03_sim_*` below).
-/
namespace SR.C03
open SR SR.Checker

variable {σ κ α : Type} [DecidableEq κ] (P : Params σ κ α)

/-- a discovery path starts in an in-boundary initial state, follows model transitions, stays in the boundary -/
theorem C03_path (cs : List Choice) : ∀ e ∈ (run P cs).disc, P.M.IsPath e.2 :=
  fun e he => ((sinv_run (P := P) cs).disc e he).1

/-- a discovery is recorded for an existing property -/
theorem C03_known_property (cs : List Choice) : ∀ e ∈ (run P cs).disc, e.1 < P.props.length :=
  fun e he => ((sinv_run (P := P) cs).disc e he).2.1

/-- the last state of an always-discovery violates the condition -/
theorem C03_always (cs : List Choice) : ∀ e ∈ (run P cs).disc, ∀ pr, P.props[e.1]? = some pr → pr.exp = .always →
    ∃ s, e.2.getLast? = some s ∧ pr.cond s = false :=
  fun e he pr hpr hexp => (((sinv_run (P := P) cs).disc e he).2.2 pr hpr).1 hexp

/-- the last state of a sometimes-discovery satisfies the condition -/
theorem C03_sometimes (cs : List Choice) : ∀ e ∈ (run P cs).disc, ∀ pr, P.props[e.1]? = some pr → pr.exp = .sometimes →
    ∃ s, e.2.getLast? = some s ∧ pr.cond s = true :=
  fun e he pr hpr hexp => (((sinv_run (P := P) cs).disc e he).2.2 pr hpr).2 hexp

/-- **Full strength** (holds of the repaired code, see DESIGN.md F4): on an eventually-discovery no state
    satisfies the condition and the last state has no in-boundary successor. -/
theorem C03_eventually (cs : List Choice) : ∀ e ∈ (run P cs).disc, ∀ pr, P.props[e.1]? = some pr → pr.exp = .eventually →
    (∀ t ∈ e.2, pr.cond t = false) ∧ ∃ s, e.2.getLast? = some s ∧ P.M.succB s = [] :=
  fun e he pr hpr hexp => (einv_run (P := P) cs).disc e he pr hpr hexp

/-! ### The simulation checker (`SR/Checker/Sim.lean`)

For every chooser (the list of its answers), every number of traces, every configuration.  The hypothesis says that
states with the same identity agree on the property conditions (true when fingerprints do not collide; under
`.symmetry()` it is the invariance of the conditions, exactly the property's premise). -/

/-- every discovery of a simulation run is a real in-boundary path ending in a witness; on an eventually discovery
    no state satisfies the condition and the path cannot be extended inside the boundary or closes a cycle. -/
theorem C03_sim
    (hkc : ∀ a b, P.M.Reach a → P.M.Reach b → P.key a = P.key b → ∀ pr ∈ P.props, pr.cond a = pr.cond b)
    (fuel n : Nat) (answers : List Nat) :
    ∀ e ∈ (Sim.runTraces P fuel n answers {}).disc,
      P.M.IsPath e.2 ∧ e.1 < P.props.length ∧
      (∀ pr, P.props[e.1]? = some pr →
        (pr.exp = .always → ∃ s, e.2.getLast? = some s ∧ pr.cond s = false) ∧
        (pr.exp = .sometimes → ∃ s, e.2.getLast? = some s ∧ pr.cond s = true) ∧
        (pr.exp = .eventually → (∀ t ∈ e.2, pr.cond t = false) ∧
          ((∃ t, e.2.getLast? = some t ∧ P.M.succB t = []) ∨ Sim.CyclesBack P e.2))) := by
  intro e he
  have h := Sim.runTraces_ok (P := P) hkc fuel n answers {} (by intro e he; simp at he) e he
  refine ⟨h.path, h.idx, fun pr hpr => ⟨(h.wit pr hpr).1, (h.wit pr hpr).2, fun hev => h.ev pr hpr hev⟩⟩

/-- **Multi-threaded simulation.**  The workers of `spawn_simulation` with `threads(k)` share only the discoveries map
    (and counters).  From one worker's point of view its read of `discoveries.contains_key` is "my own inserts OR
    what the colleagues have inserted meanwhile" — the oracle `orc (trace number) (depth) (property)`, arbitrary —, a trace
    can be cut off after any number of steps (`fuels`: a shutdown is noticed at every step), and the worker runs any
    number of traces.  Whatever the oracle, the chooser's answers and the cut-off points: every discovery THIS worker
    inserts is a genuine witness.  The shared map after `join` holds, per property, a path inserted by some worker
    (`DashMap::insert`, last writer wins), hence `C03_sim_shared_map`. -/
theorem C03_sim_worker
    (hkc : ∀ a b, P.M.Reach a → P.M.Reach b → P.key a = P.key b → ∀ pr ∈ P.props, pr.cond a = pr.cond b)
    (orc : Nat → Nat → Nat → Bool) (fuels : List Nat) (answers : List Nat) :
    Sim.DiscOk P (Sim.tracesO P orc 0 fuels answers {}).disc :=
  Sim.tracesO_ok (P := P) hkc orc fuels 0 answers {} (by intro e he; simp at he)

/-- a map every entry of which was inserted by some worker of the run contains genuine witnesses only -/
theorem C03_sim_shared_map
    (hkc : ∀ a b, P.M.Reach a → P.M.Reach b → P.key a = P.key b → ∀ pr ∈ P.props, pr.cond a = pr.cond b)
    (workers : List ((Nat → Nat → Nat → Bool) × List Nat × List Nat)) (shared : List (Nat × List σ))
    (hfrom : ∀ e ∈ shared, ∃ w ∈ workers, e ∈ (Sim.tracesO P w.1 0 w.2.1 w.2.2 {}).disc) :
    ∀ e ∈ shared,
      P.M.IsPath e.2 ∧ e.1 < P.props.length ∧
      (∀ pr, P.props[e.1]? = some pr →
        (pr.exp = .always → ∃ s, e.2.getLast? = some s ∧ pr.cond s = false) ∧
        (pr.exp = .sometimes → ∃ s, e.2.getLast? = some s ∧ pr.cond s = true) ∧
        (pr.exp = .eventually → (∀ t ∈ e.2, pr.cond t = false) ∧
          ((∃ t, e.2.getLast? = some t ∧ P.M.succB t = []) ∨ Sim.CyclesBack P e.2))) := by
  intro e he
  obtain ⟨w, _, hw⟩ := hfrom e he
  have h := C03_sim_worker P hkc w.1 w.2.1 w.2.2 e hw
  exact ⟨h.path, h.idx, fun pr hpr => ⟨(h.wit pr hpr).1, (h.wit pr hpr).2, fun hev => h.ev pr hpr hev⟩⟩

/-! ### Non-vacuity and regression witness: the graph of defect F4 (`0→{1,2}, 2→3`, properties
`[eventually (= 2), always true]`).  The machine — like the repaired code — reports `[0, 1]`, not `[0, 2, 3]`. -/

def f4Graph : Graph :=
  { n := 4, init := [0], adj := [[some 1, some 2], [], [some 3], []], bnd := [true, true, true, true] }

def f4Params : Params Nat Nat Nat :=
  { M := f4Graph.toSys,
    props := [{ exp := .eventually, cond := fun s => s == 2 }, { exp := .always, cond := fun _ => true }],
    key := id, cfg := {}, finishMatches := fun d => d.length == 2 }

example : (runSingle f4Params .bfs 200).disc = [(0, [0, 1])] := by decide
example : (runSingle f4Params .dfs 200).disc = [(0, [0, 1])] := by decide

/-- defect F5 regression (`0→{1 (outside), 2 (satisfies, terminal)}`): the repaired simulation reports nothing,
    whichever action is chosen first -/
def f5Graph : Graph :=
  { n := 3, init := [0], adj := [[some 1, some 2], [], []], bnd := [true, false, true] }
def f5Params : Params Nat Nat Nat :=
  { M := f5Graph.toSys, props := [{ exp := .eventually, cond := fun s => s == 2 }],
    key := id, cfg := { target := some 1 }, finishMatches := fun d => d.length == 1 }
example : (Sim.runTraces f5Params 10 3 [0, 0, 0] {}).disc = [] := by decide
example : (Sim.runTraces f5Params 10 3 [0, 1, 0] {}).disc = [] := by decide

/-- a worker of a multi-threaded simulation: with nobody else discovering anything it records the counterexample `[0, 1]`
    of the eventually-property; told (oracle) that a colleague has already inserted one, it records nothing -/
example : (Sim.tracesO f4Params (fun _ _ _ => false) 0 [10] [0, 0, 0] {}).disc = [(0, [0, 1])] := by decide
example : (Sim.tracesO f4Params (fun _ _ i => i == 0) 0 [10] [0, 0, 0] {}).disc = [] := by decide

end SR.C03
