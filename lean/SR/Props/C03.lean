/-! # C03 — property theorems (stub: nothing stated yet) -/
namespace SR.C03
end SR.C03
