import SR.Props.C01
import SR.Props.C09
/-!
# C09 (checker part) — every allowed crash point is explored

Composition of the actor-system model (`SR/Actor/Sys.lean`, `ActorSys.toSys`) with the checker machine: when an
exhaustive check of an actor model completes without early exit, every reachable system state — in particular
every state obtained by crashing an actor that is up, at any reachable point while the budget allows — has been
evaluated, and it is a state of its own (different from its predecessor).
-/
namespace SR.C09M
open SR SR.Checker SR.Actor

variable {σ η κ : Type} [DecidableEq κ]

/-- every reachable state of the actor model is evaluated by a completed exhaustive check -/
theorem C09_explored (sys : ActorSys σ η) (inB : Actor.St σ η → Bool) (P : Params (Actor.St σ η) κ Actor.Action)
    (hM : P.M = sys.toSys inB)
    (hinj : ∀ a b, P.M.Reach a → P.M.Reach b → P.key a = P.key b → a = b)
    (cs : List Choice) (hq : Quiescent (run P cs)) (he : (run P cs).early = false) :
    ∀ st, (sys.toSys inB).Reach st ↔ st ∈ visitedStates (run P cs) := by
  intro st
  rw [← hM]
  exact (C01.C01_exact P hinj cs hq he).1 st

/-- every allowed crash at every reachable point yields a distinct state that the check evaluates -/
theorem C09_crash_points_explored (sys : ActorSys σ η) (inB : Actor.St σ η → Bool) (P : Params (Actor.St σ η) κ Actor.Action)
    (hM : P.M = sys.toSys inB)
    (hinj : ∀ a b, P.M.Reach a → P.M.Reach b → P.key a = P.key b → a = b)
    (cs : List Choice) (hq : Quiescent (run P cs)) (he : (run P cs).early = false)
    (st st' : Actor.St σ η) (i : Nat) (hr : (sys.toSys inB).Reach st) (hwf : st.WF sys)
    (ha : Action.crash i ∈ actions sys st) (hs : Actor.step sys st (.crash i) = Actor.Outcome.next st') (hb : inB st' = true) :
    st' ∈ visitedStates (run P cs) ∧ st' ≠ st ∧ st'.crashed[i]? = some true := by
  have hd := C09.C09_distinct sys st st' i hwf ha hs
  refine ⟨?_, hd.1, hd.2.2.1⟩
  apply (C09_explored sys inB P hM hinj cs hq he st').1
  refine Sys.Reach.step hr ?_
  rw [Sys.mem_succB]
  refine ⟨⟨Action.crash i, ha, ?_⟩, hb⟩
  show (Actor.step sys st (Action.crash i)).toOption = some st'
  rw [hs]; rfl

end SR.C09M
