import SR.Drv.Chk
import SR.Proofs.Checker.Fuel
import SR.Props.C01
/-!
# C01 (driver part) — the fuel of the driver's single-threaded schedulers is sufficient

Property theorems only; helper lemmas in `SR/Proofs/Checker/Fuel.lean`.

The compiled driver (`SR/Drv/Chk.lean`, commands `chk`, `helpers`, `chk-sym`) prints `runSingle P d fuel` for an explicit
graph `g` (`P.M = g.toSys`).  `runSingle` is the one-thread worker loop of bfs.rs / dfs.rs / on_demand.rs cut off after `fuel`
iterations.  With

    fuelFor' g ps = g.fuel ps.length = 3 * ((g.n + |g.init|) * (2·|ps| + g.maxDeg + 6) + 1) + 2

(`g.maxDeg` = largest number of actions of a state) the cut-off is never reached on a well-formed graph
(`Graph.WF`, decidable: all initial states and all edge targets are `< g.n`; duplicated / out-of-boundary initial states,
short `adj` / `bnd` tables are allowed): the loop has returned by itself, the state is quiescent
(`C01_driver_fuel_sufficient`), more fuel gives the very same state (`C01_driver_fuel_stable`), and the printed state is
`run P cs` for a choice list `cs` (`C01_driver_run_is_a_machine_run`) — so `C01_exact`, C02, C03, … speak about exactly what
the driver prints (`C01_driver_exact`).  All of this for every discipline, depth limit, target count and finish condition,
and for the symmetry-reduced runs of `chk-sym` as well (`C01_driver_sym_fuel_sufficient`).

The ad-hoc formula `fuelFor` that the driver used is NOT sufficient in general
(`C01_driver_fuelFor_insufficient`: 16 copies of one initial state, 7 properties): it has no term
`|g.init| * |ps|`, but every duplicated initial state is a job of its own that evaluates all properties.
It is sufficient whenever it is at least `fuelFor'` (`C01_driver_fuelFor_sufficient_of_le`), which is the case for the
graphs the harness generates (at most 3 initial states).
-/
namespace SR.C01Fuel
open SR SR.Checker SR.Drv.Chk

/-- the parameters of `chk-sym`: the driver's parameters with the representative table as key -/
def symParams (c : Case) (rep : List Nat) : Params Nat Nat Nat := { c.params with key := fun s => rep.getD s s }

/-- **The driver's fuel is sufficient**: on a well-formed graph the single-threaded run the driver prints has come to
    its end by itself — nothing pending, nobody working — for bfs, dfs and on-demand, with any run controls. -/
theorem C01_driver_fuel_sufficient (c : Case) (hwf : c.g.WF) (d : Discipline) :
    Quiescent (runSingle c.params d (fuelFor' c.g c.props)) := by
  refine runSingle_graph_quiescent c.params hwf rfl d _ ?_
  simp [Case.params, fuelFor']

/-- Beyond `fuelFor'` the fuel is irrelevant: every larger fuel yields the same state. -/
theorem C01_driver_fuel_stable (c : Case) (hwf : c.g.WF) (d : Discipline) (fuel : Nat)
    (hfuel : fuelFor' c.g c.props ≤ fuel) :
    runSingle c.params d fuel = runSingle c.params d (fuelFor' c.g c.props) := by
  have hL : c.params.props.length = c.props.length := by simp [Case.params]
  have := runSingle_graph_stable c.params hwf rfl d fuel (by rw [hL]; exact hfuel)
  rw [hL] at this
  exact this

/-- The same for `chk-sym` (DFS with a symmetry key): the fuel bound does not depend on the key. -/
theorem C01_driver_sym_fuel_sufficient (c : Case) (hwf : c.g.WF) (rep : List Nat) (d : Discipline) :
    Quiescent (runSingle (symParams c rep) d (fuelFor' c.g c.props)) := by
  refine runSingle_graph_quiescent (symParams c rep) hwf rfl d _ ?_
  simp [symParams, Case.params, fuelFor']

/-- What the driver prints is a run of the machine (for any fuel): the scheduler only produces a choice list. -/
theorem C01_driver_run_is_a_machine_run (c : Case) (d : Discipline) (fuel : Nat) :
    ∃ cs, runSingle c.params d fuel = run c.params cs :=
  ⟨_, rfl⟩

theorem C01_driver_sym_run_is_a_machine_run (c : Case) (rep : List Nat) (d : Discipline) (fuel : Nat) :
    ∃ cs, runSingle (symParams c rep) d fuel = run (symParams c rep) cs :=
  ⟨_, rfl⟩

/-- **C01 for exactly what the driver prints**, without termination hypothesis and without injectivity hypothesis
    (states are their own keys): on a well-formed graph, if no early-exit condition occurred, the evaluated states are
    exactly the reachable in-boundary states, and `gen` (whose length is printed as `uniq`) lists each of them once. -/
theorem C01_driver_exact (c : Case) (hwf : c.g.WF) (d : Discipline)
    (he : (runSingle c.params d (fuelFor' c.g c.props)).early = false) :
    (∀ t, c.g.toSys.Reach t ↔ t ∈ visitedStates (runSingle c.params d (fuelFor' c.g c.props))) ∧
    (runSingle c.params d (fuelFor' c.g c.props)).gen.Nodup ∧
    (∀ t, t ∈ (runSingle c.params d (fuelFor' c.g c.props)).gen ↔ c.g.toSys.Reach t) := by
  have hq := C01_driver_fuel_sufficient c hwf d
  have hinj : ∀ a b, c.params.M.Reach a → c.params.M.Reach b → c.params.key a = c.params.key b → a = b :=
    fun _ _ _ _ h => h
  obtain ⟨h1, h2, h3⟩ := C01.C01_exact c.params hinj _ hq he
  refine ⟨h1, h2, ?_⟩
  intro t
  refine (h3 t).trans ⟨?_, fun ht => ⟨t, ht, rfl⟩⟩
  rintro ⟨u, hu, rfl⟩
  exact hu

/-- The old formula is fine wherever it is at least the new one (e.g. the 5-state graph below: 300 ≥ 215). -/
theorem C01_driver_fuelFor_sufficient_of_le (c : Case) (hwf : c.g.WF) (d : Discipline)
    (hle : fuelFor' c.g c.props ≤ fuelFor c.g c.props) :
    Quiescent (runSingle c.params d (fuelFor c.g c.props)) ∧
    runSingle c.params d (fuelFor c.g c.props) = runSingle c.params d (fuelFor' c.g c.props) := by
  have h := C01_driver_fuel_stable c hwf d _ hle
  exact ⟨h ▸ C01_driver_fuel_sufficient c hwf d, h⟩

/-! ### The ad-hoc formula `fuelFor` is too small in general -/

/-- one state without actions, listed 16 times as initial state; 7 always-properties that hold -/
def cexCase : Case :=
  { g := { n := 1, init := List.replicate 16 0, adj := [[]], bnd := [true] },
    props := List.replicate 7 { exp := .always, tbl := [true] }, cfg := {}, finish := .all }

set_option maxRecDepth 4000 in
/-- **`fuelFor` is not sufficient**: on `cexCase` (well-formed) it is 248, but each of the 16 jobs needs 17 iterations;
    when the fuel is used up one job is still pending and the worker is in the middle of another one (15 of the
    16 jobs have been shown to the visitor).  With `fuelFor'` (= 1025) the run is complete. -/
theorem C01_driver_fuelFor_insufficient :
    ∃ c : Case, c.g.WF ∧ ¬ Quiescent (runSingle c.params .bfs (fuelFor c.g c.props)) := by
  refine ⟨cexCase, by decide, ?_⟩
  intro hq
  have h : (runSingle cexCase.params .bfs (fuelFor cexCase.g cexCase.props)).frontier.length = 1 := by decide
  rw [hq.1] at h
  cases h

example : fuelFor cexCase.g cexCase.props = 248 ∧ fuelFor' cexCase.g cexCase.props = 1025 := by decide
set_option maxRecDepth 4000 in
example : (runSingle cexCase.params .bfs (fuelFor cexCase.g cexCase.props)).active.length = 1 ∧
    (runSingle cexCase.params .bfs (fuelFor cexCase.g cexCase.props)).visits.length = 15 := by decide
set_option maxRecDepth 4000 in
example : (runSingle cexCase.params .bfs (fuelFor' cexCase.g cexCase.props)).frontier.length = 0 ∧
    (runSingle cexCase.params .bfs (fuelFor' cexCase.g cexCase.props)).visits.length = 16 := by decide

/-! ### Non-vacuity: the 5-state graph of `Props/C01.lean` (self-loop, join, cycle, ignored action, two initial states,
one state outside the boundary) as a driver case.  It is well-formed, the run has no early exit, and the quiescent final
state has generated exactly the four reachable states. -/

def exCase : Case :=
  { g := C01.exGraph, props := [{ exp := .always, tbl := [true, true, true, true, true] }], cfg := {}, finish := .all }

example : exCase.g.WF := by decide
example : fuelFor' exCase.g exCase.props = 215 ∧ fuelFor exCase.g exCase.props = 300 := by decide

example : (runSingle exCase.params .bfs (fuelFor' exCase.g exCase.props)).gen = [0, 3, 1, 2] ∧
    (runSingle exCase.params .dfs (fuelFor' exCase.g exCase.props)).gen = [0, 3, 4, 1, 2].erase 4 ∧
    (runSingle exCase.params .ondemand (fuelFor' exCase.g exCase.props)).gen = [0, 3, 1, 2] := by decide

/-- the hypotheses of `C01_driver_exact` hold on it, so every reachable state is in `gen` (and nothing else) -/
example : ∀ t, exCase.g.toSys.Reach t ↔ t ∈ [0, 3, 1, 2] := by
  have he : (runSingle exCase.params .bfs (fuelFor' exCase.g exCase.props)).early = false := by decide
  have hg : (runSingle exCase.params .bfs (fuelFor' exCase.g exCase.props)).gen = [0, 3, 1, 2] := by decide
  intro t
  rw [← hg]
  exact ((C01_driver_exact exCase (by decide) .bfs he).2.2 t).symm

example : Quiescent (runSingle exCase.params .ondemand (fuelFor' exCase.g exCase.props)) :=
  C01_driver_fuel_sufficient exCase (by decide) .ondemand

end SR.C01Fuel
