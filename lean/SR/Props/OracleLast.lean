import SR.Proofs.OracleLast
/-!
# The last oracle lines that were read rather than proved (builder W-Z9)

Property theorems only; helper lemmas in `SR/Proofs/OracleLast.lean`.  `ObservesAll o s`: `o` is what `showSt` prints of the
machine state `s` (`Observes` of Props/C01CompleteRun + `state_count` + the discoveries with their paths, in any order).

1. `oracleC12` (Drv/Chk.lean).  `C12_oracle_lines`: the oracle is `c12Depth ++ c12Target` (by `rfl`).
   `C12_oracle_target_fires_iff` (when the target line fires, literally), `C12_oracle_target_line` (silent on every
   observation of a terminated run of the model: ANY schedule, not only `runSingle`; `_single` for the executables),
   `C12_oracle_target_detects` (a firing line refutes the conclusions of `C12_target` and `C12_no_stop_all_generated` with no
   legitimate reason left), `C12_oracle_no_other_stop` (the side condition of the BFS depth line gives the hypotheses of
   `C12_bfs_depth_complete`), `C12_oracle_passes` (the whole oracle).
2. `oracleC13`.  `C13_oracle_nondecr_iff` (`nondecr l ↔ l.Pairwise (· ≤ ·)`), `C13_oracle_nondecr_is_order` (the line IS the first
   conclusion of `C13_order`), `C13_oracle_nondecr` (silent on every FIFO run without depth limit), `C13_oracle_passes` (whole).
3. `C01_oracle_passes`: `oracleC01 c o = []` for every observation of a terminated model run on a well-formed graph.
4. `oNet` (Drv/C07.lean).  `C07_oracle_oNet_fold` (`oNet = oNetF`, a structural recursion; the `Id.run do` form unfolds),
   `C07_oracle_oNet` (`"ok"` ⇔ every operation passes `checkOp` and every observation `checkObs` along the history),
   `C07_oracle_oNet_model` / `_driver` (⇔ the model accepts the session: valid runs + `ObsSpec`), `C07_oracle_valid_no_panic`
   (new: a valid operation never panics on a canonical network), `C07_oracle_oNet_model_passes` (no false alarm).
-/
namespace SR.COracleLast
open SR SR.Checker SR.Drv.Chk SR.CCompleteRun

/-- `Observes` (Props/C01CompleteRun) does not mention `state_count` and keeps only the NAMES of the discoveries; the lines
    proved here read both: `o` is what `showSt` prints of `s`, discoveries in any order -/
structure ObservesAll (o : Obs) (s : St Nat Nat) : Prop where
  base : Observes o s
  count : o.count = s.stateCount
  disc : o.disc.Perm s.disc

theorem C01_observesAll_obsOf (s : St Nat Nat) : ObservesAll (obsOf s) s :=
  ⟨C01_observes_obsOf s, rfl, List.mergeSort_perm _ _⟩

theorem C01_observesAll_obsRaw (s : St Nat Nat) : ObservesAll (obsRaw s) s :=
  ⟨C01_observes_obsRaw s, rfl, List.Perm.refl _⟩

/-! ## 1. `oracleC12`: the target line -/

/-- the target line of `oracleC12` -/
def c12Target (c : Case) (o : Obs) : List String :=
  match c.cfg.target with
  | some t => if o.count ≥ min t (c.g.reachList.length) || !(c.cfg.maxDepth.isNone) ||
                   c.finish.matches c.props (o.disc.map (·.1)) || (o.disc.map (·.1)).eraseDups.length == c.props.length
               then [] else ["generated-fewer-states-than-target-although-more-exist"]
  | none => []

/-- `c12Target` is literally the last line of `oracleC12` -/
theorem C12_oracle_target_handle (c : Case) (o : Obs) (strat : String) :
    ∃ pre : List String, oracleC12 c o strat = pre ++ c12Target c o := ⟨_, rfl⟩

/-- **when the line fires**: a target `t` is configured, fewer than `t` states were generated AND fewer than there are
    reachable states, and none of the other reasons to stop is present: no depth limit, the finish condition does not match
    the (final) discoveries, not every property has a discovery -/
theorem C12_oracle_target_fires_iff (c : Case) (o : Obs) :
    c12Target c o ≠ [] ↔ ∃ t, c.cfg.target = some t ∧ o.count < t ∧ o.count < c.g.reachList.length ∧
      c.cfg.maxDepth = none ∧ c.finish.matches c.props (o.disc.map (·.1)) = false ∧
      (o.disc.map (·.1)).eraseDups.length ≠ c.props.length := by
  unfold c12Target
  cases ht : c.cfg.target with
  | none => simp
  | some t =>
    simp only [Option.some.injEq, exists_eq_left']
    by_cases h1 : o.count ≥ min t c.g.reachList.length
    · simp only [h1, decide_true, Bool.true_or, if_true, ne_eq, not_true, false_iff]
      rintro ⟨h2, h3, _⟩
      have := Nat.lt_min.2 ⟨h2, h3⟩
      omega
    · have h1' := Nat.lt_min.1 (Nat.lt_of_not_ge h1)
      cases hd : c.cfg.maxDepth with
      | some d => simp [h1]
      | none =>
        cases hm : c.finish.matches c.props (o.disc.map (·.1)) with
        | true => simp [h1]
        | false =>
          by_cases hl : (o.disc.map (·.1)).eraseDups.length = c.props.length
          · simp [h1, hl]
          · simp [h1, hl, h1'.1, h1'.2]

/-- **the target line is silent on every observation of a terminated run of the model** — any schedule, any strategy, any
    number of workers (in particular the single-worker schedulers `runSingle`); no timeout configured (`parseCfg`), model code
    does not panic (the driver answers `implementation-panicked` first).  Why: either nothing was dropped (`early = false`) and
    then every reachable state was generated (`C12_no_stop_all_generated`, `C01_counts`), or a worker stopped, and the only
    stop reason left is the target, reached at that moment (`C12_stop_only_if`, `C12_target`). -/
theorem C12_oracle_target_line (c : Case) (hwf : c.g.WF) (hto : c.cfg.timeout = false) (cs : List Choice)
    (hnp : ∀ ch ∈ cs, ch ≠ Choice.stop .panic) (hq : Quiescent (run c.params cs))
    (o : Obs) (ho : ObservesAll o (run c.params cs)) : c12Target c o = [] := by
  apply Classical.byContradiction
  intro hne
  obtain ⟨t, ht, h1, h2, hd, hm, hl⟩ := (C12_oracle_target_fires_iff c o).1 hne
  have hnd := discNodup_run (P := c.params) cs
  have hnd' : (o.disc.map (·.1)).Nodup := ho.base.disc.nodup_iff.2 hnd
  have hfin : c.finish.matches c.props (discNames (run c.params cs).disc) = false := by
    rw [← Finish.matches_perm c.finish c.props ho.base.disc hnd']; exact hm
  have hall : (discNames (run c.params cs).disc).eraseDups.length ≠ c.props.length := by
    rw [eraseDups_of_nodup _ hnd, ← ho.base.disc.length_eq, ← eraseDups_of_nodup _ hnd']; exact hl
  rw [ho.count] at h1 h2
  rcases target_count c hwf hto cs hnp hq t ht hd hfin hall with ⟨h, _⟩ | ⟨_, h⟩ <;> omega

/-- the same for the single-worker executables of `SR/Checker/Sched.lean` (what `chk` runs) -/
theorem C12_oracle_target_line_single (c : Case) (hwf : c.g.WF) (hto : c.cfg.timeout = false) (d : Discipline) (fuel : Nat)
    (hnp : ∀ ch ∈ schedule c.params d fuel (init c.params.M c.params.props c.params.key) (if d == .ondemand then 0 else blockSize),
      ch ≠ Choice.stop .panic)
    (hq : Quiescent (runSingle c.params d fuel)) : c12Target c (obsOf (runSingle c.params d fuel)) = [] :=
  C12_oracle_target_line c hwf hto _ hnp hq _ (C01_observesAll_obsOf _)

/-- **what a firing line detects** (tie to `C12_target`, `C12_no_stop_all_generated`).  If the line fires on an observation `o`
    then (a) the conclusion `t ≤ state_count` of `C12_target` fails: the implementation cannot have stopped for the target;
    (b) whatever its set `gen` of generated states is, as long as `unique_state_count ≤ state_count` (`C01_counts`), some
    reachable state was NOT generated: the conclusion of `C12_no_stop_all_generated` fails, so work was discarded;
    (c) and none of the legitimate reasons to discard work (depth limit, finish condition, everything discovered —
    `C12_early_only_if`, `C12_stop_only_if`) is present at the end, hence (monotonicity, `C01_complete_run_no_early`) at any
    earlier moment: the implementation stopped, or lost jobs, without a reason. -/
theorem C12_oracle_target_detects (c : Case) (hwf : c.g.WF) (o : Obs) (h : c12Target c o ≠ []) :
    ∃ t, c.cfg.target = some t ∧ ¬ t ≤ o.count ∧
      (∀ gen : List Nat, gen.length ≤ o.count → ¬ ∀ x, c.g.toSys.Reach x → x ∈ gen) ∧
      c.cfg.maxDepth = none ∧ c.finish.matches c.props (o.disc.map (·.1)) = false ∧
      (o.disc.map (·.1)).eraseDups.length ≠ c.props.length := by
  obtain ⟨t, ht, h1, h2, hd, hm, hl⟩ := (C12_oracle_target_fires_iff c o).1 h
  refine ⟨t, ht, by omega, ?_, hd, hm, hl⟩
  intro gen hg hall
  obtain ⟨hrl, hrnd⟩ := COracle.C13_oracle_reach c.g hwf
  have := List.Nodup.length_le_of_subset hrnd (fun k hk => hall k ((hrl k).1 hk))
  omega

/-! non-vacuity: the 4-state graph of `exCase` with target 3: the single-worker BFS tests the target between blocks of 1500
jobs only, so it runs to the end (6 states generated); a two-choice run with target 1 that stops at once for the target and
discards the pending job (`early = true`, 1 state generated).  Both terminate and the line is silent; on a made-up
observation with `count = 2` (< 3, < 4 reachable) it fires. -/
def exCaseT (t : Nat) : Case := { exCase with cfg := { target := some t } }

theorem C12_oracle_target_ex :
    (runSingle (exCaseT 3).params .bfs 200).frontier.length = 0 ∧ (runSingle (exCaseT 3).params .bfs 200).active.length = 0 ∧
    (runSingle (exCaseT 3).params .bfs 200).early = false ∧ (runSingle (exCaseT 3).params .bfs 200).stateCount = 6 ∧
    noPanic (schedule (exCaseT 3).params .bfs 200 (init (exCaseT 3).params.M (exCaseT 3).params.props (exCaseT 3).params.key)
      blockSize) = true ∧
    (run (exCaseT 1).params [.stop .target, .dropJob 0]).frontier.length = 0 ∧
    (run (exCaseT 1).params [.stop .target, .dropJob 0]).active.length = 0 ∧
    (run (exCaseT 1).params [.stop .target, .dropJob 0]).early = true ∧
    (run (exCaseT 1).params [.stop .target, .dropJob 0]).stateCount = 1 ∧
    c12Target (exCaseT 1) (obsRaw (run (exCaseT 1).params [.stop .target, .dropJob 0])) = [] ∧
    decide (exCaseT 3).g.WF = true ∧
    c12Target (exCaseT 3) ⟨[], 2, 2, 0, []⟩ = ["generated-fewer-states-than-target-although-more-exist"] := by decide

/-- the hypotheses of `C12_oracle_target_line` hold for the run that stops for the target -/
example : (exCaseT 1).g.WF ∧ (exCaseT 1).cfg.timeout = false ∧
    (∀ ch ∈ [Choice.stop .target, .dropJob 0], ch ≠ Choice.stop .panic) ∧
    Quiescent (run (exCaseT 1).params [.stop .target, .dropJob 0]) ∧ (exCaseT 1).cfg.target = some 1 :=
  ⟨of_decide_eq_true (by decide), rfl, C01_noPanic_iff _ (by decide),
   ⟨List.length_eq_zero_iff.1 C12_oracle_target_ex.2.2.2.2.2.1, List.length_eq_zero_iff.1 C12_oracle_target_ex.2.2.2.2.2.2.1⟩, rfl⟩

/-! ### the depth lines, and `oracleC12` as a whole -/

/-- the two depth lines of `oracleC12` -/
def c12Depth (c : Case) (o : Obs) (strat : String) : List String :=
  match c.cfg.maxDepth with
  | some d =>
    (if o.visits.all (fun p => if strat == "sim" then p.length ≤ d else p.length < d) then []
     else ["evaluated-state-deeper-than-max-depth"]) ++
    (if strat == "bfs" && c.cfg.target.isNone && !(c.finish.matches c.props (o.disc.map (·.1))) &&
        (o.disc.map (·.1)).eraseDups.length != c.props.length then
       let lasts := o.visits.map lastOf
       if c.g.reachList.all (fun t => match c.g.distOf t with
           | some k => decide (k + 1 < d) → lasts.contains t
           | none => true)
       then [] else ["bfs-missed-a-state-nearer-than-max-depth"]
     else [])
  | none => []

theorem C12_oracle_lines (c : Case) (o : Obs) (strat : String) :
    oracleC12 c o strat = c12Depth c o strat ++ c12Target c o := rfl

/-- **the side condition "no other stop reason" of `bfs-missed-a-state-nearer-than-max-depth`**: if the guard of that line holds
    on an observation of a terminated run of the model (no target, the FINAL discoveries neither match the finish condition
    nor cover all properties; no timeout, no panic), then no worker ever stopped and not everything is discovered — the
    hypotheses `hstop`, `hall` of `C12_bfs_depth_complete` -/
theorem C12_oracle_no_other_stop (c : Case) (hto : c.cfg.timeout = false) (cs : List Choice)
    (hnp : ∀ ch ∈ cs, ch ≠ Choice.stop .panic) (o : Obs) (ho : Observes o (run c.params cs))
    (ht : c.cfg.target = none) (hm : c.finish.matches c.props (o.disc.map (·.1)) = false)
    (hl : (o.disc.map (·.1)).eraseDups.length ≠ c.props.length) :
    (run c.params cs).stopped = false ∧ allDiscovered c.params (run c.params cs) = false := by
  have hnd := discNodup_run (P := c.params) cs
  have hnd' : (o.disc.map (·.1)).Nodup := ho.disc.nodup_iff.2 hnd
  have hfin : c.finish.matches c.props (discNames (run c.params cs).disc) = false := by
    rw [← Finish.matches_perm c.finish c.props ho.disc hnd']; exact hm
  have hall : (discNames (run c.params cs).disc).eraseDups.length ≠ c.props.length := by
    rw [eraseDups_of_nodup _ hnd, ← ho.disc.length_eq, ← eraseDups_of_nodup _ hnd']; exact hl
  constructor
  · cases hs : (run c.params cs).stopped with
    | false => rfl
    | true =>
      obtain ⟨a, b, hab⟩ := stopped_is_panic_of_final (C12_finish_mono_case c) ht hto cs []
        (by rw [List.append_nil]; exact hfin) hs
      exact absurd rfl (hnp _ (by rw [hab]; simp))
  · cases ha : allDiscovered c.params (run c.params cs) with
    | false => rfl
    | true =>
      have := (C12_all_discovered_iff_length c.params cs).1 ha
      rw [C01_case_props_length] at this
      exact absurd this hall

/-- **`oracleC12` passes every observation of a terminated run of the model on a well-formed graph** (any schedule; for the
    line `bfs-missed-a-state-nearer-than-max-depth`, which is raised under `strat = "bfs"` only, a FIFO single-worker run):
    `C12_depth`, `C12_bfs_depth_complete` (+ `C13_oracle_dist`), `C12_oracle_target_line` -/
theorem C12_oracle_passes (c : Case) (hwf : c.g.WF) (hto : c.cfg.timeout = false) (cs : List Choice)
    (hnp : ∀ ch ∈ cs, ch ≠ Choice.stop .panic) (hq : Quiescent (run c.params cs)) (strat : String)
    (hf : strat = "bfs" → FifoRun c.params (init c.params.M c.params.props c.params.key) cs)
    (o : Obs) (ho : ObservesAll o (run c.params cs)) : oracleC12 c o strat = [] := by
  rw [C12_oracle_lines, C12_oracle_target_line c hwf hto cs hnp hq o ho, List.append_nil]
  unfold c12Depth
  cases hd : c.cfg.maxDepth with
  | none => rfl
  | some d =>
    simp only []
    have hdep := C12M.C12_depth c.params cs d hd
    have h1 : (o.visits.all fun p => if strat == "sim" then p.length ≤ d else p.length < d) = true := by
      rw [List.all_eq_true]
      intro p hp
      rw [ho.base.visits, List.mem_reverse] at hp
      have := hdep p hp
      split <;> simp <;> omega
    rw [h1]
    simp only [if_true, List.nil_append]
    split
    · rename_i hg
      simp only [Bool.and_eq_true, beq_iff_eq, Option.isNone_iff_eq_none, Bool.not_eq_true', bne_iff_ne, ne_eq] at hg
      obtain ⟨⟨⟨hs, ht⟩, hm⟩, hl⟩ := hg
      obtain ⟨hst, hall⟩ := C12_oracle_no_other_stop c hto cs hnp o ho.base ht hm hl
      have hcomp := C12M.C12_bfs_depth_complete c.params (fun _ _ _ _ h => h) cs (hf hs) hq hst hall d hd
      rw [if_pos]
      rw [List.all_eq_true]
      intro t _
      split
      · rename_i k hk
        simp only [decide_eq_true_eq]
        intro hlt
        obtain ⟨⟨q, hq', hlast, hlen⟩, _⟩ := (COracle.C13_oracle_dist c.g hwf t k).1 hk
        have hv := hcomp q t hq' hlast (by omega)
        simp only [visitedStates, List.mem_filterMap] at hv
        obtain ⟨p, hp, hpl⟩ := hv
        simp only [List.contains_eq_mem, decide_eq_true_eq, List.mem_map]
        refine ⟨p, by rw [ho.base.visits]; exact List.mem_reverse.2 hp, ?_⟩
        simp [lastOf, hpl]
      · rfl
    · rfl

/-- non-vacuity: depth limit 3 on the join graph of `exCase13` (no finish match: the witness state 4 is at depth 3 and is
    cut off); the BFS scheduler is a FIFO run -/
def exCaseD : Case := { exCase13 with cfg := { maxDepth := some 3 } }
example : exCaseD.cfg.timeout = false ∧ decide exCaseD.g.WF = true ∧
    (runSingle exCaseD.params .bfs 300).frontier.length = 0 ∧ (runSingle exCaseD.params .bfs 300).active.length = 0 ∧
    (runSingle exCaseD.params .bfs 300).early = true ∧ (runSingle exCaseD.params .bfs 300).visits.length = 3 ∧
    oracleC12 exCaseD (obsRaw (runSingle exCaseD.params .bfs 300)) "bfs" = [] ∧
    oracleC12 exCaseD ⟨[[0], [0, 1]], 2, 2, 2, []⟩ "bfs" = ["bfs-missed-a-state-nearer-than-max-depth"] ∧
    FifoRun exCaseD.params (init exCaseD.params.M exCaseD.params.props exCaseD.params.key)
      (schedule exCaseD.params .bfs 300 (init exCaseD.params.M exCaseD.params.props exCaseD.params.key) blockSize) :=
  ⟨rfl, by decide, by decide, by decide, by decide, by decide, by decide, by decide, C13.C13_scheduler_is_fifo _ _ _ _⟩

/-! ## 2. `oracleC13`: the `nondecr` line (and the whole oracle) -/

/-- **the exact meaning of `nondecr`**: the list is sorted (every earlier element ≤ every later one) -/
theorem C13_oracle_nondecr_iff (l : List Nat) : oracleC13.nondecr l = true ↔ l.Pairwise (· ≤ ·) := nondecr_iff l

example : oracleC13.nondecr [1, 2, 2, 3, 3] = true ∧ oracleC13.nondecr [1, 3, 2] = false := by decide

/-- the three lines of `oracleC13` -/
theorem C13_oracle_lines (c : Case) (o : Obs) : oracleC13 c "bfs" o =
    (if oracleC13.nondecr (o.visits.map fun p => p.length) then [] else ["bfs-visit-depths-decrease"]) ++
    (if o.visits.all (fun p => c.g.distOf (lastOf p) == some (p.length - 1)) then [] else ["bfs-visit-path-not-shortest"]) ++
    (o.disc.flatMap fun (i, p) =>
      match c.props[i]? with
      | none => []
      | some pr =>
        if pr.exp == .eventually then [] else
        if p.length - 1 ≤ c13Best c.g pr p then [] else [s!"bfs-discovery-not-shortest-p{i}"]) := rfl

/-- **`bfs-visit-depths-decrease` is the first conclusion of `C13_order`**: for an observation of any machine state, the
    line is silent iff the visited paths, oldest first, have non-decreasing lengths -/
theorem C13_oracle_nondecr_is_order (o : Obs) (s : St Nat Nat) (ho : Observes o s) :
    oracleC13.nondecr (o.visits.map fun p => p.length) = true ↔ (s.visits.reverse.map List.length).Pairwise (· ≤ ·) := by
  rw [nondecr_iff, ho.visits]

/-- **the line is silent on every FIFO single-worker run** without depth limit (the BFS scheduler is one:
    `C13_scheduler_is_fifo`) -/
theorem C13_oracle_nondecr (c : Case) (hnd : c.cfg.maxDepth = none) (cs : List Choice)
    (hf : FifoRun c.params (init c.params.M c.params.props c.params.key) cs)
    (o : Obs) (ho : Observes o (run c.params cs)) :
    oracleC13.nondecr (o.visits.map fun p => p.length) = true :=
  (C13_oracle_nondecr_is_order o _ ho).2 (C13.C13_order c.params hnd (fun _ _ _ _ h => h) cs hf).1

/-- **`oracleC13` as a whole passes every observation of a FIFO single-worker run of the model** on a well-formed graph
    without depth limit: order (`C13_order`), shortest visited paths (`C13_order`, `C13_oracle_visit_test`), shortest witnesses
    (`C13_shortest`, `C13_oracle_best_run`) -/
theorem C13_oracle_passes (c : Case) (hwf : c.g.WF) (hnd : c.cfg.maxDepth = none) (cs : List Choice)
    (hf : FifoRun c.params (init c.params.M c.params.props c.params.key) cs)
    (o : Obs) (ho : ObservesAll o (run c.params cs)) (strat : String) : oracleC13 c strat o = [] := by
  by_cases hs : strat = "bfs"
  case neg => unfold oracleC13; simp [hs]
  subst hs
  have hord := C13.C13_order c.params hnd (fun _ _ _ _ h => h) cs hf
  have h1 := C13_oracle_nondecr c hnd cs hf o ho.base
  have h2 : o.visits.all (fun p => c.g.distOf (lastOf p) == some (p.length - 1)) = true := by
    rw [List.all_eq_true]
    intro p hp
    rw [ho.base.visits, List.mem_reverse] at hp
    exact (COracle.C13_oracle_visit_test c.g hwf p (C01.C01_sound c.params cs p hp)).2 (hord.2 p hp)
  rw [C13_oracle_lines, h1, h2]
  simp only [if_true, List.nil_append, List.flatMap_eq_nil_iff]
  rintro ⟨i, p⟩ he
  have he' := ho.disc.mem_iff.1 he
  cases hpr : c.props[i]? with
  | none => rfl
  | some pr =>
    simp only []
    by_cases hexp : pr.exp = .eventually
    · simp [hexp]
    · have hne : (pr.exp == Expect.eventually) = false := by simpa using hexp
      have := C13_oracle_best_run c hwf hnd cs hf (i, p) he' pr hpr hexp
      simp only [hne, Bool.false_eq_true, if_false]
      rw [if_pos this]

/-- non-vacuity: the BFS scheduler on the join graph of `exCase13` -/
example : exCase13.cfg.maxDepth = none ∧ decide exCase13.g.WF = true ∧
    FifoRun exCase13.params (init exCase13.params.M exCase13.params.props exCase13.params.key)
      (schedule exCase13.params .bfs 300 (init exCase13.params.M exCase13.params.props exCase13.params.key) blockSize) :=
  ⟨rfl, by decide, C13.C13_scheduler_is_fifo _ _ _ _⟩

/-! ## 3. `oracleC01` as a whole -/

/-- **`oracleC01` passes every observation of a terminated run of the model on a well-formed graph** (any schedule; no
    timeout configured, no panic of model code): the five unguarded lines — `C01_sound`, `C01_evaluated_reachable`, `C01_once`,
    every generated state is reachable (`genReach_run`, new) and `C01_counts` — and the two lines guarded by `completeRun`
    (`C01_complete_run_oracle_lines`) -/
theorem C01_oracle_passes (c : Case) (hwf : c.g.WF) (hto : c.cfg.timeout = false) (cs : List Choice)
    (hnp : ∀ ch ∈ cs, ch ≠ Choice.stop .panic) (hq : Quiescent (run c.params cs))
    (o : Obs) (ho : ObservesAll o (run c.params cs)) : oracleC01 c o = [] := by
  have hvis := C01.C01_sound c.params cs
  obtain ⟨hrl, hrnd⟩ := COracle.C13_oracle_reach c.g hwf
  have hne : ∀ p ∈ (run c.params cs).visits, p ≠ [] := fun p hp => Sys.isPath_ne_nil (hvis p hp)
  have h1 : o.visits.all c.g.isPathB = true := by
    rw [List.all_eq_true]
    intro p hp
    rw [ho.base.visits, List.mem_reverse] at hp
    exact (Graph.isPathB_iff c.g p).2 (hvis p hp)
  have h2 : (o.visits.map lastOf).all c.g.reachList.contains = true := by
    rw [List.all_eq_true]
    intro x hx
    obtain ⟨p, hp, rfl⟩ := List.mem_map.1 hx
    rw [ho.base.visits, List.mem_reverse] at hp
    have hpath := hvis p hp
    have hl : p.getLast? = some (lastOf p) := by
      unfold lastOf; rw [List.getLast?_eq_some_getLast (hne p hp)]; rfl
    simp only [List.contains_eq_mem, decide_eq_true_eq]
    exact (hrl _).2 (Sys.reach_last_of_isPath hpath hl)
  have h3 : (c.g.initB.eraseDups.length == c.g.initB.length &&
      (o.visits.map lastOf).eraseDups.length != (o.visits.map lastOf).length) = false := by
    cases hi : (c.g.initB.eraseDups.length == c.g.initB.length) with
    | false => rfl
    | true =>
      have hnd : c.g.initB.Nodup := (eraseDups_length_eq_iff _).1 (beq_iff_eq.1 hi)
      have honce := (C01.C01_once c.params (by simpa [Case.params, Graph.initB] using hnd) cs).2
      have hl : (o.visits.map lastOf).Nodup := by
        rw [ho.base.visits, List.map_reverse, (List.reverse_perm _).nodup_iff, ← filterMap_getLast?_eq_map_lastOf _ hne]
        exact honce
      simp [(eraseDups_length_eq_iff _).2 hl]
  have h4 : o.uniq ≤ c.g.reachList.length := by
    rw [ho.base.uniq]
    apply List.Nodup.length_le_of_subset (ninv_run (P := c.params) cs).genNodup
    intro k hk
    obtain ⟨t, ht, rfl⟩ := genReach_run (P := c.params) cs k hk
    exact (hrl _).2 ht
  have h5 : o.count ≥ o.uniq := by
    rw [ho.base.uniq, ho.count]; exact C01.C01_counts c.params cs
  unfold oracleC01
  simp only [h1, h2, h3, h4, h5, if_true, Bool.false_eq_true, if_false, List.nil_append, List.append_nil]
  cases hc : completeRun c o with
  | false => rfl
  | true =>
    obtain ⟨h6, h7⟩ := C01_complete_run_oracle_lines c hwf hto cs hnp hq o ho.base hc
    simp [h6, h7]

/-- non-vacuity: the hypotheses hold for the BFS run of `exCase` (Props/C01CompleteRun), whose guard `completeRun` is true -/
example : exCase.g.WF ∧ exCase.cfg.timeout = false ∧ (∀ ch ∈ exChoices, ch ≠ Choice.stop .panic) ∧
    Quiescent (run exCase.params exChoices) ∧ ObservesAll (obsOf (run exCase.params exChoices)) (run exCase.params exChoices) :=
  ⟨of_decide_eq_true C01_complete_run_ex.2.2.2.2.2.2, rfl, C01_noPanic_iff _ C01_complete_run_ex.2.1,
   ⟨List.length_eq_zero_iff.1 C01_complete_run_ex.2.2.1, List.length_eq_zero_iff.1 C01_complete_run_ex.2.2.2.1⟩,
   C01_observesAll_obsOf _⟩

/-! ## 4. `oNet` (Drv/C07.lean): the outer `for` loop with early return -/
section C07
open SR.Actor SR.Actor.Codec SR.Drv.C07 SR.C07 SR.COracleRest

/-- **`oNet` is the fold `oNetF`** (Proofs/OracleLast: structural recursion `stepsF` over the steps, `opsF` over the operations
    of a step; no `Id.run do`, `for`, `mut`, `return`): the `do` block unfolds (`List.forIn_cons`), nothing blocks it -/
theorem C07_oracle_oNet_fold (kind : String) (nActors : Nat) (lossy : Bool) (last0 : Option Env) (h0 : Hist')
    (steps : List (List NetOp × Drv.C07.Obs)) : oNet kind nActors lossy last0 h0 steps = oNetF kind nActors lossy last0 h0 steps :=
  oNet_eq_oNetF kind nActors lossy last0 h0 steps

/-- what the fold is: no step ⇒ `"ok"`; otherwise the first refused operation of the first step, else its refused
    observation, else the remaining steps with the extended history and the next step number -/
theorem C07_oracle_oNet_unfold (kind : String) (nActors : Nat) (lossy : Bool) (last0 : Option Env) (h : Hist') (k : Nat) :
    stepsF kind nActors lossy last0 h k [] = none ∧
    ∀ ops o rest, stepsF kind nActors lossy last0 h k ((ops, o) :: rest) =
      match opsF kind k h ops with
      | (some r, _) => some r
      | (none, h') =>
        match checkObs kind nActors lossy last0 h' o with
        | some err => some s!"step {k}: {err}"
        | none => stepsF kind nActors lossy last0 h' (k + 1) rest :=
  ⟨rfl, fun _ _ _ => rfl⟩

/-- **`oNet … = "ok"` ⇔ every step passes `checkOp` and `checkObs` along the history**: every operation of every group is
    accepted by `checkOp` on the history before it (`OpsOk`), and every observation by `checkObs` on the history after its
    group (`Passes`); an error answer is never the string `"ok"` -/
theorem C07_oracle_oNet (kind : String) (nActors : Nat) (lossy : Bool) (last0 : Option Env) (h0 : Hist')
    (steps : List (List NetOp × Drv.C07.Obs)) :
    oNet kind nActors lossy last0 h0 steps = "ok" ↔ Passes kind nActors lossy last0 h0 steps := by
  rw [oNet_eq_oNetF]; exact oNetF_ok_iff kind nActors lossy last0 h0 steps

/-- `Passes`, spelled out -/
theorem C07_oracle_oNet_passes (kind : String) (nActors : Nat) (lossy : Bool) (last0 : Option Env) (h : Hist') :
    (Passes kind nActors lossy last0 h [] ↔ True) ∧
    (∀ ops o rest, Passes kind nActors lossy last0 h ((ops, o) :: rest) ↔
      OpsOk kind h ops ∧ checkObs kind nActors lossy last0 (h ++ ops) o = none ∧
      Passes kind nActors lossy last0 (h ++ ops) rest) ∧
    (OpsOk kind h [] ↔ True) ∧
    (∀ op ops, OpsOk kind h (op :: ops) ↔ checkOp kind h op = none ∧ OpsOk kind (h ++ [op]) ops) :=
  ⟨Iff.rfl, fun _ _ _ => Iff.rfl, Iff.rfl, fun _ _ => Iff.rfl⟩

/-- a `valid` operation never panics on a canonical network (so `Net.run` fails only on an invalid operation) -/
theorem C07_oracle_valid_no_panic (n : Net) (hc : n.Canon) (op : NetOp) (hv : n.valid op = true) :
    ∃ n', n.apply op = some n' := apply_of_valid hc hv

/-- **`oNet … = "ok"` ⇔ the model accepts the whole session** (with W-Z7's `C07_oracle_checkOp`, `C07_oracle_checkObs`): if
    the history so far is a valid run of the model from the empty network, ending in `n`, then the answer is `"ok"` iff, step
    after step, the group of operations is a valid run of the model (`Net.run … = some n'`) and the observation satisfies
    `ObsSpec` (= `C07_canonical` ∧ `C07_views` ∧ `C07_dup_last` ∧ `C07_actions`) for the network `n'` reached -/
theorem C07_oracle_oNet_model (kind : String) (nActors : Nat) (lossy : Bool) (last0 : Option Env) (h0 : Hist') (n : Net)
    (hr : Net.run (emptyNet kind last0) h0 = some n) (steps : List (List NetOp × Drv.C07.Obs)) :
    oNet kind nActors lossy last0 h0 steps = "ok" ↔ ModelPasses kind nActors lossy n steps := by
  rw [C07_oracle_oNet]; exact passes_iff_model steps h0 n hr

/-- about the driver's own call: `o-net` passes `envs.map NetOp.send` as `h0`, and the model network of the request is
    `mkNet kind envs last` (`C07_oracle_initial`) -/
theorem C07_oracle_oNet_driver (kind : String) (nActors : Nat) (lossy : Bool) (envs : List Env) (last : Option Env) (n₀ : Net)
    (hm : mkNet kind envs last = some n₀) (steps : List (List NetOp × Drv.C07.Obs)) :
    oNet kind nActors lossy last (envs.map NetOp.send) steps = "ok" ↔ ModelPasses kind nActors lossy n₀ steps := by
  apply C07_oracle_oNet_model
  have := C07_oracle_initial kind envs last n₀ hm []
  rw [List.append_nil] at this
  rw [this]; rfl

/-- **no false alarm**: the model's own session (its own observations after each group of a valid run) is answered `"ok"` -/
theorem C07_oracle_oNet_model_passes (kind : String) (last0 : Option Env) (h0 : Hist') (n : Net)
    (hr : Net.run (emptyNet kind last0) h0 = some n) (ops : List NetOp) (n' : Net) (hr' : Net.run n ops = some n') :
    oNet kind 0 false last0 h0 [(ops, ⟨n', n'.len, n'.iterAll, n'.iterDeliverable, none⟩)] = "ok" := by
  rw [C07_oracle_oNet_model kind 0 false last0 h0 n hr]
  refine ⟨n', hr', ?_, trivial⟩
  have hr2 : Net.run (emptyNet kind last0) (h0 ++ ops) = some n' := by rw [run_append', hr]; exact hr'
  exact (C07_oracle_checkObs kind 0 false last0 _ n' hr2 _).1 (C07_oracle_model_passes kind last0 _ n' hr2).1

/-! non-vacuity: a two-step session on the ordered network that is accepted, and the same with an un-deliverable delivery -/
example : Net.run (emptyNet "o" none) [.send ⟨0, 1, 7⟩] = some (Net.ord [((0, 1), [7])]) ∧
    Net.run (Net.ord [((0, 1), [7])]) [.send ⟨0, 1, 8⟩, .deliver ⟨0, 1, 7⟩] = some (Net.ord [((0, 1), [8])]) := by decide

example : OpsOk "o" [.send ⟨0, 1, 7⟩] [.send ⟨0, 1, 8⟩, .deliver ⟨0, 1, 7⟩] :=
  (opsOk_iff_run (last0 := none) _ _ (Net.ord [((0, 1), [7])]) (by decide)).2 ⟨Net.ord [((0, 1), [8])], by decide⟩

example : ¬ OpsOk "o" [.send ⟨0, 1, 7⟩] [.deliver ⟨0, 1, 8⟩] := by
  rw [opsOk_iff_run (last0 := none) _ _ (Net.ord [((0, 1), [7])]) (by decide)]
  rintro ⟨n', h⟩
  have hn : Net.run (Net.ord [((0, 1), [7])]) [.deliver ⟨0, 1, 8⟩] = none := by decide
  rw [hn] at h
  cases h

end C07

end SR.COracleLast
