import SR.Proofs.ReachRef
import SR.Props.C09Machine
/-!
# C09 — the reference of the oracle `o-reach` is the declarative reachable set

`o-reach` (SR/Drv/C09.lean) compares the states visited by the implementation's checkers with the states of a
bounded breadth-first walk of the MODEL.  `walkF` (SR/Proofs/ReachRef.lean) is that walk as a total function: same
successor enumeration (`sortActions (actions sys st)`, `step sys st a`), same records, same meaning of `bound`
(at most `bound` states are EXPANDED; the result is "closed" iff every discovered state was expanded,
`records.size = states.size`), identity of states = structural equality (no text key, nothing to assume).

Theorems, for every actor system (any handlers), every fuel and every bound:
* `C09_oracle_walk_sound` — every listed state is reachable by the model's steps (`Sys.Reach` of `ActorSys.toSys`);
* `C09_oracle_walk_complete` — a closed result lists EVERY reachable state, each once;
* `C09_oracle_walk_closed_iff` — the result is closed exactly when the reachable set has at most `bound` states
  (otherwise exactly `bound` states were expanded and more than `bound` distinct reachable states are listed);
* `C09_oracle_walk_total` — with fuel `bound + 1` the fuel never runs out (`none` ⇔ the initial state panics);
* `C09_oracle_reach_explored`, `C09_oracle_reach_perm` — hence the reference of `o-reach` is, as a duplicate-free
  list, a permutation of the states evaluated by a completed exhaustive check (`C09_explored`).
-/
namespace SR.C09Reach
open SR SR.Actor SR.Checker SR.ReachRef

variable {σ η : Type} [DecidableEq σ] [DecidableEq η]

/-- **Sound**: every state `walkF` lists is reachable from the initial state by steps of the model; the first one
    is the initial state, and no state is listed twice — closed or not, whatever the fuel and the bound. -/
theorem C09_oracle_walk_sound (sys : ActorSys σ η) (fuel bound : Nat) (w : WalkR σ η)
    (h : walkF fuel sys bound = some w) :
    (∀ st ∈ w.states.toList, (sys.toSys (fun _ => true)).Reach st) ∧
    w.states.toList.Nodup ∧ (init sys = w.states[0]? ∧ w.states[0]?.isSome) ∧
    w.records.size ≤ bound ∧ w.records.size ≤ w.states.size := by
  obtain ⟨st0, hi, hw, _⟩ := walkF_inv sys fuel bound w h
  refine ⟨hw.reach, hw.nodup, ?_, hw.leB, hw.le⟩
  -- the initial state stays in front: the list only grows at the end
  have : w.states[0]? = some st0 := by
    unfold walkF at h
    rw [hi] at h
    have hpre : ∀ (fuel : Nat) (v v' : WalkR σ η), loopF sys bound fuel v = some v' → v.states[0]? = some st0 →
        v'.states[0]? = some st0 := by
      intro fuel
      induction fuel with
      | zero => intro v v' hv; simp [loopF] at hv
      | succ fuel ih =>
        intro v v' hv h0
        rw [loopF] at hv
        split at hv
        · cases hv; exact h0
        · split at hv
          · cases hv; exact h0
          · rename_i st hst
            refine ih _ _ hv ?_
            obtain ⟨ext, h1, _⟩ := expand_spec sys st v.states
            show (expand sys st v.states).1[0]? = some st0
            rw [← Array.getElem?_toList, h1, List.getElem?_append_left, Array.getElem?_toList]
            · exact h0
            · have := (Array.getElem?_eq_some_iff.1 h0).1
              rw [Array.length_toList]; exact this
    exact hpre fuel _ w h (by simp)
  rw [hi, this]; exact ⟨rfl, rfl⟩

/-- **Complete**: a closed result (every discovered state expanded — the test `records.size = states.size` of the
    drivers) lists exactly the reachable states of the model, each once. -/
theorem C09_oracle_walk_complete (sys : ActorSys σ η) (fuel bound : Nat) (w : WalkR σ η)
    (h : walkF fuel sys bound = some w) (hc : w.records.size = w.states.size) :
    (∀ st, (sys.toSys (fun _ => true)).Reach st ↔ st ∈ w.states.toList) ∧ w.states.toList.Nodup := by
  obtain ⟨st0, hi, hw, _⟩ := walkF_inv sys fuel bound w h
  exact ⟨fun st => ⟨reach_mem_of_closed sys st0 bound w hi hw hc st, hw.reach st⟩, hw.nodup⟩

/-- **Meaning of the bound**: the result is closed iff the model has at most `bound` reachable states (there is a
    list of at most `bound` states holding all of them); if it is not closed, exactly `bound` states were expanded
    and MORE than `bound` distinct reachable states are listed. -/
theorem C09_oracle_walk_closed_iff (sys : ActorSys σ η) (fuel bound : Nat) (w : WalkR σ η)
    (h : walkF fuel sys bound = some w) :
    (w.records.size = w.states.size ↔
      ∃ l : List (Actor.St σ η), (∀ st, (sys.toSys (fun _ => true)).Reach st → st ∈ l) ∧ l.length ≤ bound) ∧
    (w.records.size ≠ w.states.size → w.records.size = bound ∧ bound < w.states.size) := by
  obtain ⟨st0, hi, hw, hex⟩ := walkF_inv sys fuel bound w h
  have hopen : w.records.size ≠ w.states.size → w.records.size = bound ∧ bound < w.states.size := by
    intro hne
    rcases hex with hb | hb
    · have := hw.le; omega
    · exact absurd hb hne
  refine ⟨⟨?_, ?_⟩, hopen⟩
  · intro hc
    refine ⟨w.states.toList, reach_mem_of_closed sys st0 bound w hi hw hc, ?_⟩
    rw [Array.length_toList, ← hc]; exact hw.leB
  · rintro ⟨l, hl, hlen⟩
    apply Classical.byContradiction
    intro hne
    obtain ⟨_, hlt⟩ := hopen hne
    have := hw.nodup.length_le_of_subset (fun s hs => hl s (hw.reach s hs))
    rw [Array.length_toList] at this
    omega

/-- **Total with fuel `bound + 1`**: the fuel never runs out; the only `none` is a panicking initial state (the
    answer `panic` of the drivers, as for `walk`). -/
theorem C09_oracle_walk_total (sys : ActorSys σ η) (bound : Nat) :
    walkF (bound + 1) sys bound = none ↔ init sys = none := by
  unfold walkF
  split
  · rename_i hi; simp [hi]
  · rename_i st0 hi
    have := loopF_fuel sys bound (bound + 1) { states := #[st0], records := #[] } (by simp) (by simp)
    constructor
    · intro hn; rw [hn] at this; cases this
    · intro hn; rw [hi] at hn; cases hn

/-- more fuel than `bound + 1` changes nothing -/
theorem C09_oracle_walk_fuel_irrelevant (sys : ActorSys σ η) (bound fuel : Nat) (w : WalkR σ η)
    (h : walkF fuel sys bound = some w) : ∀ fuel', fuel ≤ fuel' → walkF fuel' sys bound = some w := by
  have hmono : ∀ (f : Nat) (v : WalkR σ η), loopF sys bound f v = some w → ∀ f', f ≤ f' → loopF sys bound f' v = some w := by
    intro f
    induction f with
    | zero => intro v hv; simp [loopF] at hv
    | succ f ih =>
      intro v hv f' hf
      obtain ⟨g, rfl⟩ : ∃ g, f' = g + 1 := ⟨f' - 1, by omega⟩
      rw [loopF] at hv ⊢
      split
      · rename_i hge; rw [if_pos hge] at hv; exact hv
      · rename_i hlt
        rw [if_neg hlt] at hv
        split
        · rename_i hn; rw [hn] at hv; exact hv
        · rename_i st hst
          rw [hst] at hv
          exact ih _ hv g (by omega)
  intro fuel' hf
  unfold walkF at h ⊢
  split
  · rename_i hi; rw [hi] at h; cases h
  · rename_i st0 hi
    rw [hi] at h
    exact hmono fuel _ h fuel' hf

/-- the fingerprint cache of `walkK` (used by the drop-in `walkT` for speed) is only a cache: whatever the fingerprint
    function — constant, colliding, anything — the result is that of `walkF` -/
theorem C09_oracle_walk_key_irrelevant {κ : Type} [DecidableEq κ] (fp : Actor.St σ η → κ) (fuel : Nat)
    (sys : ActorSys σ η) (bound : Nat) : walkK fp fuel sys bound = walkF fuel sys bound :=
  walkK_eq fp fuel sys bound

/-- **the drop-in `walkT`** for `walk` in the drivers (`graph`, `reach`, `o-reach`): it answers `none` exactly when the
    initial state panics, its states are reachable and distinct, and when the drivers' test `records.size = states.size`
    succeeds its states are exactly the reachable states of the system described by the request. -/
theorem C09_oracle_walkT (sys : Codec.USys) (bound : Nat) :
    (ReachRef.walkT sys bound = none ↔ init sys = none) ∧
    ∀ w, ReachRef.walkT sys bound = some w →
      (∀ st ∈ w.states.toList, (sys.toSys (fun _ => true)).Reach st) ∧ w.states.toList.Nodup ∧
      (w.records.size = w.states.size → ∀ st, (sys.toSys (fun _ => true)).Reach st ↔ st ∈ w.states.toList) ∧
      (w.records.size = w.states.size ↔
        ∃ l : List Codec.USt, (∀ st, (sys.toSys (fun _ => true)).Reach st → st ∈ l) ∧ l.length ≤ bound) := by
  constructor
  · rw [← C09_oracle_walk_total sys bound]
    simp [ReachRef.walkT, walkK_eq]
  · intro w hw
    simp only [ReachRef.walkT, walkK_eq, Option.map_eq_some_iff] at hw
    obtain ⟨v, hv, rfl⟩ := hw
    have hs := C09_oracle_walk_sound sys _ bound v hv
    exact ⟨hs.1, hs.2.1, fun hc => (C09_oracle_walk_complete sys _ bound v hv hc).1,
      (C09_oracle_walk_closed_iff sys _ bound v hv).1⟩

/-! ## the reference of `o-reach` is the set of `C09_explored` -/

variable {κ : Type} [DecidableEq κ]

/-- **Corollary**: for a completed exhaustive check of the actor model without early exit (hypotheses of
    `C09_explored`, no boundary), the states the checker evaluated are exactly the states of a closed `walkF` — the
    reference `o-reach` compares the implementation's visited set with is the declarative reachable set. -/
theorem C09_oracle_reach_explored (sys : ActorSys σ η) (P : Params (Actor.St σ η) κ Actor.Action)
    (hM : P.M = sys.toSys (fun _ => true))
    (hinj : ∀ a b, P.M.Reach a → P.M.Reach b → P.key a = P.key b → a = b)
    (cs : List Choice) (hq : Quiescent (run P cs)) (he : (run P cs).early = false)
    (fuel bound : Nat) (w : WalkR σ η) (h : walkF fuel sys bound = some w) (hc : w.records.size = w.states.size) :
    ∀ st, st ∈ visitedStates (run P cs) ↔ st ∈ w.states.toList := by
  intro st
  rw [← (C09M.C09_explored sys (fun _ => true) P hM hinj cs hq he st)]
  exact (C09_oracle_walk_complete sys fuel bound w h hc).1 st

/-- … and as lists: the checker evaluates each reachable state once (`C01_once`; an actor model has one initial
    state), so the evaluated states are a PERMUTATION of the reference list — the multiset equality `o-reach` tests. -/
theorem C09_oracle_reach_perm (sys : ActorSys σ η) (P : Params (Actor.St σ η) κ Actor.Action)
    (hM : P.M = sys.toSys (fun _ => true))
    (hinj : ∀ a b, P.M.Reach a → P.M.Reach b → P.key a = P.key b → a = b)
    (cs : List Choice) (hq : Quiescent (run P cs)) (he : (run P cs).early = false)
    (fuel bound : Nat) (w : WalkR σ η) (h : walkF fuel sys bound = some w) (hc : w.records.size = w.states.size) :
    (visitedStates (run P cs)).Perm w.states.toList := by
  have hnd : (P.M.initB.map P.key).Nodup := by
    rw [hM]
    simp only [Sys.initB, ActorSys.toSys]
    cases init sys <;> simp
  exact (List.perm_ext_iff_of_nodup (C01.C01_once P hnd cs).2 (C09_oracle_walk_complete sys fuel bound w h hc).2).2
    (C09_oracle_reach_explored sys P hM hinj cs hq he fuel bound w h hc)

/-! ## the hypotheses are satisfiable -/

/-- actor 0 sends one message to actor 1 on start; a delivery bumps the receiver's state -/
def pinger : Actor Nat where
  start id := (0, if id = 0 then [.send 1 7] else [])
  msg _ s _ _ := .ok (some (s + 1)) []
  timeout _ _ _ := .ok none []
  random _ _ _ := .ok none []

def exSys : ActorSys Nat Unit where
  n := 2
  actor _ := pinger
  lossy := false
  maxCrashes := 1
  initNet := Net.nondup []
  initHist := ()
  recordIn _ _ := none
  recordOut _ _ := none

def exSt (a1 : Nat) (sent : Bool) (c : List Bool) : Actor.St Nat Unit :=
  { actors := [0, a1], net := Net.nondup (if sent then [(⟨0, 1, 7⟩, 1)] else []), timers := [[], []],
    random := [[], []], crashed := c, hist := () }

/-- the six reachable states (message pending or delivered × nobody / actor 0 / actor 1 crashed), in BFS order,
    with the records of `walk`: a delivery to the crashed actor 1 is offered but is not a step (`-`) -/
def exW : WalkR Nat Unit where
  states := #[exSt 0 true [false, false], exSt 1 false [false, false], exSt 0 true [true, false],
              exSt 0 true [false, true], exSt 1 false [true, false], exSt 1 false [false, true]]
  records := #[[(.deliver ⟨0, 1, 7⟩, "1"), (.crash 0, "2"), (.crash 1, "3")], [(.crash 0, "4"), (.crash 1, "5")],
               [(.deliver ⟨0, 1, 7⟩, "4")], [(.deliver ⟨0, 1, 7⟩, "-")], [], []]

/-- closed exactly at the bound: 6 reachable states, `bound = 6`, fuel `bound + 1` -/
theorem ex_closed : walkF 7 exSys 6 = some exW := walkU_eq exSys 7 6 exW (by decide)
example : exW.records.size = exW.states.size := by decide

/-- one less and the result is open: 5 states expanded, all 6 discovered -/
theorem ex_open : ∃ w, walkF 6 exSys 5 = some w ∧ w.records.size = 5 ∧ w.states.size = 6 :=
  ⟨{ exW with records := exW.records.pop }, walkU_eq exSys 6 5 _ (by decide), by decide, by decide⟩

example : (exSys.toSys (fun _ => true)).Reach (exSt 1 false [false, true]) :=
  (C09_oracle_walk_sound exSys 7 6 exW ex_closed).1 _ (by decide)

end SR.C09Reach
