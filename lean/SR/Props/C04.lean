import SR.Proofs.HashUniv
import SR.Proofs.HashEquivB
/-!
# C04 — state identity is faithful

Property theorems only.  Model: `SR/Hash/Univ.lean` (the universe of Rust-shaped values `Val τ`, the
`write_*` calls `toks h τ v` each value feeds to a hasher, `flat` = the byte stream those calls amount to).
`h` is the inner stable hasher used by `HashableHashSet/Map` (a parameter); `P` is any predicate covering
the inner streams that reach `h` (part of `WF`), and `InjOnP h P` says that `h` does not collide on them —
64-bit collisions of the inner hasher are the "bad luck" the property excludes.
`WF` otherwise only states what Rust's types guarantee (integer ranges, `len < 2^64`, no 0xff byte in UTF-8).

`Equiv τ` (`≈τ`) is structural equality except: hash-table collections modulo iteration order, vector clocks
modulo trailing zeros, `random_choices` modulo actors without pending choices (padding).

The model is the code AFTER the repairs F1 (crash flags and pending choices are part of `ActorModelState`'s
identity) and F2 (length prefix in `HashableHashSet/Map::hash`); the full-strength theorems hold.
-/
namespace SR.C04
open SR.Hash

variable (h : List Tok → UInt64) (P : List Tok → Prop)

/-- Equal values feed equal streams — token by token, hence byte by byte — whatever the insertion order,
capacity, hasher seed or padding they were built with. -/
theorem C04_resp (τ : Ty) (a b : Val τ) (e : Equiv τ a b) : toks h τ a = toks h τ b :=
  toks_resp h τ a b e

/-- Every stream is self-delimiting on BYTES: no value's stream is a proper prefix of another's
(of the same type), so concatenations (tuples, structs, vectors of collections) can be split uniquely. -/
theorem C04_selfDelim (hinj : InjOnP h P) (τ : Ty) (a b : Val τ) (wa : WF h P τ a) (wb : WF h P τ b)
    (x y : List Nat) (e : flat (toks h τ a) ++ x = flat (toks h τ b) ++ y) :
    flat (toks h τ a) = flat (toks h τ b) ∧ x = y := by
  obtain ⟨r, exy⟩ := core_all h P hinj τ a b wa wb x y e
  exact ⟨by rw [toks_resp h τ a b r], exy⟩

/-- Values that differ (modulo `≈`) feed different BYTE streams: equal flat streams ⇒ `≈`-equal. -/
theorem C04_inj (hinj : InjOnP h P) (τ : Ty) (a b : Val τ) (wa : WF h P τ a) (wb : WF h P τ b)
    (e : flat (toks h τ a) = flat (toks h τ b)) : Equiv τ a b :=
  (core_all h P hinj τ a b wa wb [] []
    (by show flat (toks h τ a) ++ [] = flat (toks h τ b) ++ []; rw [e])).1

/-- the two directions together -/
theorem C04_stream_iff (hinj : InjOnP h P) (τ : Ty) (a b : Val τ) (wa : WF h P τ a) (wb : WF h P τ b) :
    flat (toks h τ a) = flat (toks h τ b) ↔ Equiv τ a b :=
  ⟨C04_inj h P hinj τ a b wa wb, fun e => by rw [C04_resp h τ a b e]⟩

/-! ## the cases named in the statement -/

/-- Which of two ADJACENT collections holds an element is visible: `({a},{})` vs `({},{a})` (F2). -/
theorem C04_adjacent_sets (hinj : InjOnP h P) (t : Ty) (a b : Val (.tup (.hset t) (.hset t)))
    (wa : WF h P _ a) (wb : WF h P _ b) (e : flat (toks h _ a) = flat (toks h _ b)) :
    PermBy (Equiv t) a.1 b.1 ∧ PermBy (Equiv t) a.2 b.2 :=
  C04_inj h P hinj _ a b wa wb e

/-- the same for maps side by side -/
theorem C04_adjacent_maps (hinj : InjOnP h P) (k v : Ty) (a b : Val (.tup (.hmap k v) (.hmap k v)))
    (wa : WF h P _ a) (wb : WF h P _ b) (e : flat (toks h _ a) = flat (toks h _ b)) :
    Equiv (.hmap k v) a.1 b.1 ∧ Equiv (.hmap k v) a.2 b.2 :=
  C04_inj h P hinj _ a b wa wb e

/-- `timers_set: Vec<Timers<T>>`: which ACTOR a timer is set on is visible (`[{t},{}]` vs `[{},{t}]`). -/
theorem C04_timers_vec (hinj : InjOnP h P) (t : Ty) (a b : Val (.vec (Ty.timers t)))
    (wa : WF h P _ a) (wb : WF h P _ b) (e : flat (toks h _ a) = flat (toks h _ b)) :
    All2 (PermBy (Equiv t)) a b :=
  C04_inj h P hinj _ a b wa wb e

/-- `Network<Msg>` (derived `Hash` over the three representations): the kind, every in-flight envelope
(with multiplicity / queue position) and the last delivered message are visible. -/
theorem C04_network (hinj : InjOnP h P) (m : Ty) (a b : Val (Ty.net m))
    (wa : WF h P _ a) (wb : WF h P _ b) (e : flat (toks h _ a) = flat (toks h _ b)) :
    Equiv (Ty.net m) a b :=
  C04_inj h P hinj _ a b wa wb e

/-- networks of different kinds never collide, whatever they contain -/
theorem C04_network_kind (hinj : InjOnP h P) (m : Ty)
    (ud : Val (.tup (.hset (Ty.env m)) (Ty.opt (Ty.env m)))) (un : Val (.hmap (Ty.env m) .usize))
    (a b : Val (Ty.net m)) (ha : a = .inl ud) (hb : b = .inr (.inl un))
    (wa : WF h P _ a) (wb : WF h P _ b) : flat (toks h _ a) ≠ flat (toks h _ b) := by
  intro e
  have := C04_inj h P hinj _ a b wa wb e
  subst ha hb
  simp only [Equiv] at this

/-- The pending random choices (tail of `ActorModelState::hash`, F1): which actor has which choices is
visible; actors without pending choices (padding of the vector) are not. -/
theorem C04_random_choices (hinj : InjOnP h P) (r : Ty) (a b : Val (.choices r))
    (wa : WF h P _ a) (wb : WF h P _ b) (e : flat (toks h _ a) = flat (toks h _ b)) :
    All2 (fun p q => p.1 = q.1 ∧ PermBy (fun e f => e.1 = f.1 ∧ All2 (Equiv r) e.2 f.2) p.2 q.2)
      (pendingFrom 0 a) (pendingFrom 0 b) :=
  C04_inj h P hinj _ a b wa wb e

/-- `VectorClock`: same stream exactly when equal up to trailing zeros (shared with C20). -/
theorem C04_vclock (hinj : InjOnP h P) (a b : Val .vclock) (wa : WF h P _ a) (wb : WF h P _ b) :
    flat (toks h .vclock a) = flat (toks h .vclock b) ↔ ∀ i, VClock.get0 a i = VClock.get0 b i :=
  C04_stream_iff h P hinj .vclock a b wa wb

/-- `DenseNatMap<K,V>`: the values in key order. -/
theorem C04_densenatmap (hinj : InjOnP h P) (v : Ty) (a b : Val (Ty.dnm v))
    (wa : WF h P _ a) (wb : WF h P _ b) (e : flat (toks h _ a) = flat (toks h _ b)) :
    All2 (Equiv v) a b :=
  C04_inj h P hinj _ a b wa wb e

/-- Both consistency testers (derived `Hash` over the reference object, the per-thread histories, the
in-flight operations and the validity flag), for arbitrary thread-id / object / op / ret types. -/
theorem C04_testers (hinj : InjOnP h P) (tid obj op ret : Ty) :
    (∀ (a b : Val (Ty.linTester tid obj op ret)), WF h P _ a → WF h P _ b →
      flat (toks h _ a) = flat (toks h _ b) → Equiv _ a b) ∧
    (∀ (a b : Val (Ty.scTester tid obj op ret)), WF h P _ a → WF h P _ b →
      flat (toks h _ a) = flat (toks h _ b) → Equiv _ a b) :=
  ⟨fun a b wa wb e => C04_inj h P hinj _ a b wa wb e, fun a b wa wb e => C04_inj h P hinj _ a b wa wb e⟩

/-- `ActorModelState`: two states feeding the same byte stream agree on EVERY component: actor states,
history, timers (per actor), network, crash flags and pending random choices (per actor). -/
theorem C04_state (hinj : InjOnP h P) (s m t r hist : Ty) (st st' : Val (Ty.state s m t r hist))
    (w : WF h P _ st) (w' : WF h P _ st') (e : flat (toks h _ st) = flat (toks h _ st')) :
    Equiv (.vec (.arc s)) st.1 st'.1 ∧                                   -- actor_states
    Equiv hist st.2.1 st'.2.1 ∧                                          -- history
    Equiv (.vec (Ty.timers t)) st.2.2.1 st'.2.2.1 ∧                      -- timers_set
    Equiv (Ty.net m) st.2.2.2.1 st'.2.2.2.1 ∧                            -- network
    Equiv (.vec .bool) st.2.2.2.2.1 st'.2.2.2.2.1 ∧                      -- crashed
    Equiv (.choices r) st.2.2.2.2.2 st'.2.2.2.2.2 :=                     -- random_choices (pending ones)
  C04_inj h P hinj _ st st' w w' e

/-! ## equality

`equivB τ` is the executable `==` of the universe: it composes exactly like the `PartialEq` impls of the code —
field by field for tuples/structs, element by element for sequences, as sets/maps for the hash tables
(`HashSet::eq`/`HashMap::eq`), `VectorClock::eq` (the model `VClock.veq` shared with C20) for clocks, and for
`ActorModelState` the manual `eq`: actor_states, history, timers_set, network, crashed and the PENDING choices
`(index, map)` compared as sequences. It is what the correspondence oracle runs against the implementation's `==`. -/

/-- `==` decides `≈τ`. -/
theorem C04_eq_decides (hinj : InjOnP h P) (τ : Ty) (a b : Val τ) (wa : WF h P τ a) (wb : WF h P τ b) :
    equivB τ a b = true ↔ Equiv τ a b :=
  ⟨equivB_sound τ a b, equivB_complete h P hinj τ a b wa wb⟩

/-- Identity is one notion: two values are `==` exactly when they feed the same byte stream — equal ones never
split, distinct ones never merge. -/
theorem C04_eq_iff_stream (hinj : InjOnP h P) (τ : Ty) (a b : Val τ) (wa : WF h P τ a) (wb : WF h P τ b) :
    equivB τ a b = true ↔ flat (toks h τ a) = flat (toks h τ b) :=
  (C04_eq_decides h P hinj τ a b wa wb).trans (C04_stream_iff h P hinj τ a b wa wb).symm

/-- `ActorModelState`: `st == st'` ⇔ same byte stream ⇔ they agree on all six components
(actor states, history, timers, network, crash flags, pending random choices). -/
theorem C04_eq_iff (hinj : InjOnP h P) (s m t r hist : Ty) (st st' : Val (Ty.state s m t r hist))
    (w : WF h P _ st) (w' : WF h P _ st') :
    (equivB _ st st' = true ↔ flat (toks h _ st) = flat (toks h _ st')) ∧
    (equivB _ st st' = true ↔
      Equiv (.vec (.arc s)) st.1 st'.1 ∧ Equiv hist st.2.1 st'.2.1 ∧
      Equiv (.vec (Ty.timers t)) st.2.2.1 st'.2.2.1 ∧ Equiv (Ty.net m) st.2.2.2.1 st'.2.2.2.1 ∧
      Equiv (.vec .bool) st.2.2.2.2.1 st'.2.2.2.2.1 ∧ Equiv (.choices r) st.2.2.2.2.2 st'.2.2.2.2.2) :=
  ⟨C04_eq_iff_stream h P hinj _ st st' w w', C04_eq_decides h P hinj _ st st' w w'⟩

/-! ## the hypotheses are satisfiable on a concrete, non-trivial instance

`h0` = sum of the bytes; it is injective on the three streams `[u8 1]`, `[u8 2]`, `[u8 3]`. -/

def h0 (s : List Tok) : UInt64 := UInt64.ofNat ((flat s).foldl (· + ·) 0)
def P0 (s : List Tok) : Prop := s = [.u8 1] ∨ s = [.u8 2] ∨ s = [.u8 3]

example : InjOnP h0 P0 := by
  intro s t hs ht e
  rcases hs with rfl | rfl | rfl <;> rcases ht with rfl | rfl | rfl <;> first | rfl | (revert e; decide)

/-- `({1,2},{3})`: well-formed; its stream shows both length prefixes -/
example : WF h0 P0 (.tup (.hset .u8) (.hset .u8)) (([1, 2], [3]) : List Nat × List Nat) := by
  show (LenOk ([1, 2] : List Nat) ∧ AllMem (fun (e : Nat) => NatLt 8 e ∧ P0 [Tok.u8 e]) ([1, 2] : List Nat)) ∧
    (LenOk ([3] : List Nat) ∧ AllMem (fun (e : Nat) => NatLt 8 e ∧ P0 [Tok.u8 e]) ([3] : List Nat))
  simp [LenOk, AllMem, NatLt, P0]

theorem C04_example_stream : toks h0 (.tup (.hset .u8) (.hset .u8)) (([1, 2], [3]) : List Nat × List Nat) =
    [.usize 2, .u64 1, .u64 2, .usize 1, .u64 3] := by
  show setToks h0 (([1, 2] : List Nat).map fun (n : Nat) => [Tok.u8 n]) ++ setToks h0 (([3] : List Nat).map fun (n : Nat) => [Tok.u8 n]) = _
  have e1 : (h0 [Tok.u8 1]).toNat = 1 := by decide
  have e2 : (h0 [Tok.u8 2]).toNat = 2 := by decide
  have e3 : (h0 [Tok.u8 3]).toNat = 3 := by decide
  have s1 : [1, 2].mergeSort leB = [1, 2] := List.mergeSort_of_pairwise (by simp [leB])
  have s2 : [3].mergeSort leB = [3] := List.mergeSort_of_pairwise (by simp)
  simp only [setToks, List.map, e1, e2, e3, s1, s2, List.length]
  rfl

/-- `({1,2},{3})` and `({1},{2,3})` differ in which of the adjacent sets holds `2`: their BYTE streams differ
(the F2 collision, gone) -/
example : flat (toks h0 (.tup (.hset .u8) (.hset .u8)) (([1, 2], [3]) : List Nat × List Nat)) ≠
    flat (toks h0 (.tup (.hset .u8) (.hset .u8)) (([1], [2, 3]) : List Nat × List Nat)) := by
  have t2 : toks h0 (.tup (.hset .u8) (.hset .u8)) (([1], [2, 3]) : List Nat × List Nat) =
      [.usize 1, .u64 1, .usize 2, .u64 2, .u64 3] := by
    show setToks h0 (([1] : List Nat).map fun (n : Nat) => [Tok.u8 n]) ++
      setToks h0 (([2, 3] : List Nat).map fun (n : Nat) => [Tok.u8 n]) = _
    have e1 : (h0 [Tok.u8 1]).toNat = 1 := by decide
    have e2 : (h0 [Tok.u8 2]).toNat = 2 := by decide
    have e3 : (h0 [Tok.u8 3]).toNat = 3 := by decide
    have s1 : [2, 3].mergeSort leB = [2, 3] := List.mergeSort_of_pairwise (by simp [leB])
    have s2 : [1].mergeSort leB = [1] := List.mergeSort_of_pairwise (by simp)
    simp only [setToks, List.map, e1, e2, e3, s1, s2, List.length]
    rfl
  rw [C04_example_stream, t2]
  decide

end SR.C04
