/-! # C04 — property theorems (stub: nothing stated yet) -/
namespace SR.C04
end SR.C04
