import SR.Proofs.IdCodec
import SR.Proofs.RuntimeAccept
/-!
# C17 — spawned actors see the same contract over UDP as in the model

Property theorems only.

(a) Codec: `SR/Util/IdCodec.lean` transcribes the two `From` impls of src/actor/spawn.rs
    (`idOf` = `Id::from(SocketAddrV4)`, `addrOf` = `SocketAddrV4::from(Id)`).
(b) Event loop: `SR/Runtime/Loop.lean` is the loop of ONE actor thread of `spawn()` as a state
    machine over an abstract monotone clock; the actor is the environment (an event carries what
    the handler was given and what it returned), so every theorem holds for ALL actors, message
    patterns, timer scripts and timings (= all event lists the machine enables).  The ghost logs
    `calls` (handler invocations), `sent` (`send_to` calls), `recvd` (datagrams taken from the socket)
    and `hist` (what happened to each timer) are the observables the statements talk about.

PARTIAL with respect to the informal statement (cannot be exhibited by a model): OS timing, socket
buffering and datagram loss; no upper bound on timer latency is claimed; `send_to` errors are
ignored by the code, so "emits one datagram" is "calls `send_to` once".
-/
namespace SR.C17
open SR.IdCodec SR.Loop

/-! ## (a) Id <-> IPv4 socket address -/

/-- address -> id -> address is the identity, for every IPv4 address and port -/
theorem C17_id_addr (a : Addr) (h : a.Valid) : addrOf (idOf a) = a := addrOf_idOf a h

/-- id -> address -> id is the identity on 48-bit ids -/
theorem C17_addr_id (id : Nat) (h : id < 2 ^ 48) : idOf (addrOf id) = id := idOf_addrOf id h

/-- what the code does above 48 bits: the two high bytes are ignored -/
theorem C17_high_bits (id : Nat) : addrOf id = addrOf (id % 2 ^ 48) := addrOf_mod id

/-- the two maps land in each other's domain, and the id is the 48-bit number `ip:port`
(so together with the two round trips: a bijection between valid addresses and 48-bit ids) -/
theorem C17_codec_range (id : Nat) (a : Addr) (h : a.Valid) :
    (addrOf id).Valid ∧ idOf a < 2 ^ 48 ∧ idOf a = idSpec a :=
  ⟨addrOf_valid id, idOf_lt a h, idOf_eq_spec a h⟩

/-- ids that differ only above bit 48 are the same address; ids below 2^48 never collide -/
theorem C17_addr_inj (i j : Nat) (hi : i < 2 ^ 48) (hj : j < 2 ^ 48) (h : addrOf i = addrOf j) : i = j := by
  rw [← idOf_addrOf i hi, ← idOf_addrOf j hj, h]

example : addrOf (idOf ⟨1, 2, 3, 4, 5⟩) = ⟨1, 2, 3, 4, 5⟩ := by decide
example : idOf ⟨127, 0, 0, 1, 3000⟩ = 127 * 2 ^ 40 + 2 ^ 16 + 3000 := by decide
example : addrOf (2 ^ 63 + 2 ^ 48 + idOf ⟨10, 0, 0, 7, 65535⟩) = ⟨10, 0, 0, 7, 65535⟩ := by decide

/-! ## (b) the runtime loop -/

variable {σ μ τ ρ : Type} [DecidableEq τ] [DecidableEq ρ] [DecidableEq σ]

/-- `on_start` runs once, before anything else: either nothing at all has happened (no handler
call, no datagram sent or taken, no timer), or the first call is `on_start` and no later one is. -/
theorem C17_start_first {C : Cfg μ} {es : List (Ev σ μ τ ρ)} {s : St σ μ τ ρ}
    (h : run C init es = some s) :
    (s.calls = [] ∧ s.sent = [] ∧ s.recvd = [] ∧ s.ints = [] ∧ s.hist = []) ∨
    (∃ t out cmds rest, s.calls = .start t out cmds :: rest ∧ ∀ c ∈ rest, c.isStart = false) := by
  have hi := inv_run (inv_init C) h
  cases hc : s.calls with
  | nil => left; obtain ⟨a, b, c, d, _⟩ := hi.quiet hc; exact ⟨rfl, a, b, c, d⟩
  | cons c rest =>
    right
    have ht := hi.thr
    rw [hc] at ht
    simp only [Threaded] at ht
    cases c with
    | start t out cmds => exact ⟨t, out, cmds, rest, rfl, threaded_some_no_start _ _ ht.2⟩
    | msg _ _ _ _ _ _ => simp [Call.inSt] at ht
    | timeout _ _ _ _ _ => simp [Call.inSt] at ht
    | random _ _ _ _ _ => simp [Call.inSt] at ht

/-- every handler receives the state left by the previous one (and the machine holds the state
left by the last one) -/
theorem C17_state_threaded {C : Cfg μ} {es : List (Ev σ μ τ ρ)} {s : St σ μ τ ρ}
    (h : run C init es = some s) :
    (∀ pre c1 c2 post, s.calls = pre ++ c1 :: c2 :: post → c2.inSt = some c1.outSt) ∧
    (∀ pre c, s.calls = pre ++ [c] → s.st = some c.outSt) := by
  have hi := inv_run (inv_init C) h
  constructor
  · intro pre c1 c2 post hc
    have ht := hi.thr
    rw [hc] at ht
    have : ∀ (cur : Option σ) (pre : List (Call σ μ τ ρ)), Threaded cur (pre ++ c1 :: c2 :: post) →
        c2.inSt = some c1.outSt := by
      intro cur pre
      induction pre generalizing cur with
      | nil => intro h; simp only [List.nil_append, Threaded] at h; exact h.2.1
      | cons x r ih => intro h; simp only [List.cons_append, Threaded] at h; exact ih _ h.2
    exact this _ _ ht
  · intro pre c hc
    rw [hi.cur, hc, curSt_append]

/-- a timer fires only while armed and no earlier than the lower bound of its latest arming —
unless the last command on it was a cancel at least `never` (500 years) ago: the code parks a
cancelled timer instead of removing it (see `C17_cancelled_silent`). `armed k t₀ lo` is recorded
when `SetTimer(k, lo..hi)` is executed at clock reading `t₀`. -/
theorem C17_timer_armed {C : Cfg μ} {es : List (Ev σ μ τ ρ)} {s : St σ μ τ ρ}
    (h : run C init es = some s) {pre post : List (TObs τ)} {k : τ} {t : Nat}
    (hh : s.hist = pre ++ .fired k t :: post) :
    (∃ t₀ lo, lastOn k pre = some (.armed k t₀ lo) ∧ t₀ + lo < t) ∨
    (∃ t₀, lastOn k pre = some (.cancelled k t₀) ∧ t₀ + C.never < t) :=
  (inv_run (inv_init C) h).fired pre post k t hh

/-- a cancelled timer that is not set again stays silent for 500 years -/
theorem C17_cancelled_silent {C : Cfg μ} {es : List (Ev σ μ τ ρ)} {s : St σ μ τ ρ}
    (h : run C init es = some s) {pre mid post : List (TObs τ)} {k : τ} {t₀ t : Nat}
    (hh : s.hist = pre ++ .cancelled k t₀ :: (mid ++ .fired k t :: post))
    (hmid : ∀ t₁ lo, TObs.armed k t₁ lo ∉ mid) : t₀ + C.never < t := by
  have hi := inv_run (inv_init C) h
  have hf := hi.fired (pre ++ .cancelled k t₀ :: mid) post k t (by rw [hh]; simp)
  -- the last entry about `k` before the fire lies in `cancelled k t₀ :: mid`
  have hlast : ∀ o, lastOn k (pre ++ .cancelled k t₀ :: mid) = some o → o ∈ TObs.cancelled k t₀ :: mid :=
    fun o ho => lastOn_after k pre mid _ o rfl ho
  have hs := hi.sorted
  rw [hh, List.pairwise_append] at hs
  have hs2 := hs.2.1
  rw [List.pairwise_cons] at hs2
  rcases hf with ⟨t1, lo, h1, _⟩ | ⟨t1, h1, h2⟩
  · rcases List.mem_cons.1 (hlast _ h1) with e | hm
    · cases e
    · exact absurd hm (hmid t1 lo)
  · rcases List.mem_cons.1 (hlast _ h1) with e | hm
    · injection e with _ e; subst e; exact h2
    · have := hs2.1 _ (List.mem_append_left _ hm)
      simp only [TObs.time] at this
      omega

/-- each `on_msg` call corresponds to a datagram taken from the socket, in order: it carries the
deserialized message and the id derived from the (IPv4) sender address; datagrams that do not
parse or come from a non-IPv4 source cause no call -/
theorem C17_msg_faithful {C : Cfg μ} {es : List (Ev σ μ τ ρ)} {s : St σ μ τ ρ}
    (h : run C init es = some s) :
    msgCalls s.calls = s.recvd.filterMap (decodeDatagram C) :=
  (inv_run (inv_init C) h).msgs

/-- each `Send` of a serializable message emits exactly one `send_to(addrOf dst, serialize m)`, in
command order; nothing else is ever sent (commands still queued are the ones not yet executed) -/
theorem C17_send_faithful {C : Cfg μ} {es : List (Ev σ μ τ ρ)} {s : St σ μ τ ρ}
    (h : run C init es = some s) :
    s.sent ++ s.queue.filterMap (sendOf C) = (allCmds s.calls).filterMap (sendOf C) :=
  (inv_run (inv_init C) h).sends

/-- the acceptance predicate used for trace validation never rejects a behaviour of the machine:
the log (handler events) of a run that has executed all its commands is accepted -/
theorem C17_accept_sound {C : Cfg μ} (hC : C.strict = true) {es : List (Ev σ μ τ ρ)} {s : St σ μ τ ρ}
    (h : run C init es = some s) (hq : s.queue = []) :
    accepts C (es.filter isHandler) = true := by
  obtain ⟨a, ha, _⟩ := accept_sound hC h hq
  simp [accepts, ha]

/-! ### the hypotheses are satisfiable: a concrete run (start, arm, message, fire, cancel) -/

/-- messages are numbers, serialized as one byte; 255 does not serialize, `[9,9]` does not parse -/
def exCfg : Cfg Nat :=
  { id := idOf ⟨127, 0, 0, 1, 3000⟩
    ser := fun m => if m < 255 then some [m] else none
    de := fun b => match b with | [m] => some m | _ => none }

def exRun : List (Ev Nat Nat Nat Nat) :=
  [ .start 10 0 [.set 7 100 200, .send 5 1],
    .exec 11 42, .exec 12 0,
    .msg 50 ⟨127, 0, 0, 1, 4000⟩ [3] 0 1 [.send 6 255, .cancel 9],
    .exec 51 0, .exec 52 0,
    .drop 60 (.v4 ⟨127, 0, 0, 1, 4000⟩) [9, 9],
    .idle 100,
    .fire 160 (.timeout 7) 1 2 [.cancel 7, .set 8 30 30],
    .exec 161 0, .exec 162 0,
    .fire 200 (.timeout 8) 2 3 [] ]

example : (run exCfg init exRun).isSome = true := by decide
example : ((run exCfg init exRun).map (·.hist)) =
    some [.armed 7 11 100, .cancelled 9 52, .fired 7 160, .cancelled 7 161, .armed 8 162 30, .fired 8 200] := by decide
example : ((run exCfg init exRun).map (·.sent)) = some [(addrOf 5, [1])] := by decide
-- a timer cannot fire before its lower bound ...
example : (run exCfg init (exRun.take 8 ++ [.fire 110 (.timeout 7) 1 2 []])).isSome = false := by decide
-- ... nor after a cancel ...
example : (run exCfg init (exRun ++ [.fire 100000 (.timeout 7) 3 4 []])).isSome = false := by decide
-- ... and a handler cannot be given a stale state
example : (run exCfg init (exRun.take 8 ++ [.fire 160 (.timeout 7) 0 2 []])).isSome = false := by decide
example : accepts exCfg (exRun.filter isHandler) = true := by decide

end SR.C17
