/-! # C17 — property theorems (stub: nothing stated yet) -/
namespace SR.C17
end SR.C17
