import SR.Proofs.Checker.ReplayComplete
import SR.Props.C03MSim
import SR.Props.C05Full
/-!
# C03 / C05 — completeness of the trace validators `tvsim` and `tv`

Property theorems only; definitions (`entry`, `record`, `Lag`) and proofs in `SR/Proofs/Checker/ReplayComplete.lean`.

The validators replay the event log of a real multi-threaded run over the model machine and report a VIOLATION when an
entry is not an enabled step with the recorded outcome.  Soundness was proved (`C03_msim_trace_validation_sound`,
`C05_trace_validation_sound`); here: a rejection is never the validator's fault — every run of the machine, logged the
way the hooks log it, is accepted.
-/
namespace SR.CReplayComplete
open SR SR.Checker SR.Checker.MSim

section tvsim
open SR.Drv.SimTrace SR.ReplayComplete.Sim

variable (P : Params Nat Nat Nat)

/-- **Completeness of `tvsim`, any moment of any run.**  For EVERY step list `fs` (every interleaving, chooser, timeout,
    panic; steps that are not enabled are skipped as in `MSim.run`), the log `record` of the run is accepted, and the
    state the replay ends in is the machine's state `MSim.run P k fs` up to the steps that have no log entry
    (`finishProps` of a trace that awaits something, recording-loop iterations whose bit is not set), which the replay
    performs only when the worker's next entry arrives: `Lag`. -/
theorem C03_msim_trace_validation_complete (k : Nat) (fs : List (Step Nat)) :
    ∃ x, replay P (MSim.init k) 0 (record P (MSim.init k) fs) = .ok x ∧ Lag P x (MSim.run P k fs) :=
  replay_complete fs _ _ 0 (lag_refl _)

/-- the same from any state, at any entry number -/
theorem C03_msim_trace_validation_complete_from (s : S) (i : Nat) (fs : List (Step Nat)) :
    ∃ x, replay P s i (record P s fs) = .ok x ∧ Lag P x (MSim.runFrom P s fs) :=
  replay_complete fs _ _ i (lag_refl _)

/-- `Lag` is equality of the shared map, the count and the flag; the workers differ only inside a trace, by steps
    without an entry -/
theorem C03_msim_lag_shared {x s : S} (h : Lag P x s) :
    x.disc = s.disc ∧ x.stateCount = s.stateCount ∧ x.shutdown = s.shutdown ∧ x.ws.length = s.ws.length ∧
    ∀ w : Nat, (∀ t, s.ws[w]? ≠ some (WSt.busy t)) → x.ws[w]? = s.ws[w]? := by
  refine ⟨h.disc, h.cnt, h.sd, ?_, ?_⟩
  · have hle : ∀ {a b : S}, (∀ w : Nat, LagO P a.ws[w]? b.ws[w]?) → a.ws.length ≤ b.ws.length := by
      intro a b hab
      apply Nat.le_of_not_lt
      intro hlt
      have := hab b.ws.length
      rw [List.getElem?_eq_none (Nat.le_refl _), List.getElem?_eq_getElem hlt] at this
      exact this
    apply Nat.le_antisymm (hle h.ws)
    apply Nat.le_of_not_lt
    intro hlt
    have := h.ws x.ws.length
    rw [List.getElem?_eq_none (Nat.le_refl _), List.getElem?_eq_getElem hlt] at this
    exact this
  · intro w hw
    cases hb : s.ws[w]? with
    | none =>
      have := h.ws w
      rw [hb] at this
      cases ha : x.ws[w]? with
      | none => rfl
      | some a => rw [ha] at this; exact this.elim
    | some b => exact lag_get_nonbusy h hb (fun t ht => hw t (ht ▸ hb))

/-- **Completeness of `tvsim`, complete runs.**  If at the end of the run every worker has left (the driver rejects a
    trace otherwise: "workers … have not left in the model"), the replay of the log ends EXACTLY in the final state of
    the run: the count and the discoveries `tvsim` answers with are the machine's. -/
theorem C03_msim_trace_validation_complete_final (k : Nat) (fs : List (Step Nat))
    (hleft : allLeft (MSim.run P k fs) = true) :
    replay P (MSim.init k) 0 (record P (MSim.init k) fs) = .ok (MSim.run P k fs) := by
  obtain ⟨x, hx, hl⟩ := C03_msim_trace_validation_complete P k fs
  rw [hx, eq_of_lag_settled hl (settled_of_allLeft hleft)]

/-- more generally whenever no worker is in its choice loop or its recording loop -/
theorem C03_msim_trace_validation_complete_settled (k : Nat) (fs : List (Step Nat))
    (hs : Settled (MSim.run P k fs)) :
    replay P (MSim.init k) 0 (record P (MSim.init k) fs) = .ok (MSim.run P k fs) := by
  obtain ⟨x, hx, hl⟩ := C03_msim_trace_validation_complete P k fs
  rw [hx, eq_of_lag_settled hl hs]

/-- **`tvsim` is exact.**  The final states (all workers gone) that the validator can accept are exactly the final
    states of the runs of the machine: acceptance ⇔ being a run (soundness `C03_msim_trace_validation_sound` +
    completeness). -/
theorem C03_msim_trace_validation_exact (k : Nat) (x : S) (hleft : allLeft x = true) :
    (∃ es, replay P (MSim.init k) 0 es = .ok x) ↔ ∃ fs : List (Step Nat), x = MSim.run P k fs := by
  constructor
  · rintro ⟨es, h⟩
    exact C03.C03_msim_trace_validation_sound P k es x h
  · rintro ⟨fs, rfl⟩
    exact ⟨_, C03_msim_trace_validation_complete_final P k fs hleft⟩

/-! Non-vacuity: the two racing runs and the cut run of `Props/C03MSim.lean` (every step enabled, all workers gone). -/

/-- what `tvsim` prints for the log of `fs`, compared with the run itself -/
def accepts (P : Params Nat Nat Nat) (k : Nat) (fs : List (Step Nat)) : Bool :=
  match replay P (MSim.init k) 0 (record P (MSim.init k) fs) with
  | .ok x => allLeft x && x.disc == (MSim.run P k fs).disc && x.stateCount == (MSim.run P k fs).stateCount
  | .error _ => false

example : accepts C03.raceParams 2 C03.raceBoth = true ∧ accepts C03.raceParams 2 C03.raceSkip = true := by decide

/-- 22 steps, 20 entries: the two `finishProps` of a trace that awaits something have none -/
example : C03.raceBoth.length = 22 ∧ (record C03.raceParams (MSim.init 2) C03.raceBoth).length = 20 := by decide

example : accepts C03.cutParams 1 (C03.cutHead ++ [.timeout, .cut 0, .cont 0, .leave 0 .shutdown]) = true := by decide

/-- the recording loop: one entry (kind 23) for the set bit -/
example : accepts C03.cutParams 1 (C03.cutHead ++ [.enter 0, .evalProp 0 0, .applyProp 0 0, .finishProps 0,
    .advance 0 none, .recordOne 0 0, .endTrace 0, .leave 0 .finish]) = true := by decide

/-- `Lag` cannot be replaced by equality at an arbitrary moment: right after a `finishProps` without entry the machine's
    worker is in its choice loop, the replay's still at the end of the property loop -/
example :
    let fs : List (Step Nat) := [.start 0 0, .enter 0, .evalProp 0 0, .applyProp 0 0, .finishProps 0]
    (match (MSim.run C03.cutParams 1 fs).ws[0]? with | some (WSt.busy t) => t.ph == .choose | _ => false) = true ∧
    (match replay C03.cutParams (MSim.init 1) 0 (record C03.cutParams (MSim.init 1) fs) with
      | .ok x => (match x.ws[0]? with | some (WSt.busy t) => t.ph == .props 1 | _ => false)
      | .error _ => false) = true := by decide

end tvsim


section tv
open SR.Market SR.Full SR.Drv.Full SR.ReplayComplete.Full

variable (P : Params Nat Nat Nat)

/-- the state `tv` starts its replay in (after the entry of the owner's push of the initial jobs) -/
def tv0 (k : Nat) : TV := { x := finit P k, reason := [], pieces := [] }

/-- **Completeness of `tv` for `spawn_bfs` / `spawn_dfs` traces.**  For EVERY step list `fs` of the product
    `Checker/Full.lean` (every interleaving of `k` workers, every resolution of `notify_one`, spurious wake-ups, stops,
    panics, the timeout; steps that are not enabled are skipped) that follows the queue discipline of the code
    (`disciplined`: `pop_back`, a new job gets the next token and goes to the front (bfs) / back (dfs) of the own deque, no
    job is dropped unevaluated in an open market — the product itself allows any discipline), the log `record` of the run
    — what the hooks of job_market.rs and bfs.rs / dfs.rs write, one entry per critical section / operation on the shared
    maps, none for `finishProps`, retiring and no-op iterations of the terminal-state loop — is ACCEPTED by the replay, and
    the replay ends in a state `Rel`-ated to the final state of the run: the same market up to the notification flags of
    waiting workers (which of them `notify_one` woke is not in the log), the same `generated`, pending jobs, discoveries,
    counts, and every worker's current job moved on to its next logged step (the replay performs the steps without entry
    eagerly).  `notw ≥ k` is the index the harness gives to threads that are not workers (99999). -/
theorem C05_trace_validation_complete (mode : Mode) (hm : mode ≠ .ondemand) (k notw : Nat) (hk : k ≤ notw)
    (fs : List FStep) (hd : disciplined P (mode == .dfs) (finit P k) fs = true) :
    ∃ tv, replay P k mode (tv0 P k) 1 (record P notw (finit P k) fs) = .ok tv ∧ Rel P tv.x (frun P k fs).1 := by
  obtain ⟨tv, h1, h2⟩ := replay_complete hk hm rfl fs (tv0 P k) (finit P k) 1 (trel_init k) (book_init k) hd
  exact ⟨tv, h1, h2.rel⟩

theorem C05_trace_validation_complete_bfs (k notw : Nat) (hk : k ≤ notw) (fs : List FStep)
    (hd : disciplined P false (finit P k) fs = true) :
    ∃ tv, replay P k .bfs (tv0 P k) 1 (record P notw (finit P k) fs) = .ok tv ∧ Rel P tv.x (frun P k fs).1 :=
  C05_trace_validation_complete P .bfs (by decide) k notw hk fs hd

theorem C05_trace_validation_complete_dfs (k notw : Nat) (hk : k ≤ notw) (fs : List FStep)
    (hd : disciplined P true (finit P k) fs = true) :
    ∃ tv, replay P k .dfs (tv0 P k) 1 (record P notw (finit P k) fs) = .ok tv ∧ Rel P tv.x (frun P k fs).1 :=
  C05_trace_validation_complete P .dfs (by decide) k notw hk fs hd

/-- **Completeness of `tv`, bookkeeping entries where the hooks write them.**  In a real log the `TR_SPLIT_PIECE` entries of a
    `split_and_push` come before its `TR_SPLIT` entry and the `TR_STOP` entry of a worker before its `TR_DROP` entry, with
    entries of OTHER threads possibly in between (`check_block` does not hold the market mutex).  So: for every
    interleaving `is` of steps of the product (each logged at its last entry, `coreEntries`) with `piece` / `stopping`
    items (`TR_SPLIT_PIECE` / `TR_STOP`) such that (`itemsOk`) the steps follow the queue discipline, the sizes announced
    since the last `TR_SPLIT` are those of the batches a `split` publishes, and the last reason announced by a worker
    that leaves is the one it leaves for (1 `finish_when`, 2 target, 3 / 4 market closed / nothing popped, none for a
    panic) — the log is accepted and the replay ends `Rel`-ated to the state the steps lead to, which is the run
    `frun P k (itemSteps is)`.  `C05_trace_validation_complete` is the case where the bookkeeping entries of a step
    immediately precede its last entry. -/
theorem C05_trace_validation_complete_interleaved (mode : Mode) (hm : mode ≠ .ondemand) (k notw : Nat) (hk : k ≤ notw)
    (is : List Item) (hok : itemsOk P (mode == .dfs) [] [] (finit P k) is = true) :
    ∃ tv, replay P k mode (tv0 P k) 1 (itemLog P notw (finit P k) is) = .ok tv ∧
      Rel P tv.x (frun P k (itemSteps is)).1 := by
  obtain ⟨tv, h1, h2⟩ := items_complete hk hm rfl is (tv0 P k) (finit P k) 1 (trel_init k) hok
  refine ⟨tv, h1, ?_⟩
  have := h2.rel
  rw [itemEnd_frun] at this
  exact this

/-- what `Rel` means for everything `tv` prints and the check compares: `uniq` (`generated`), `count`, the discoveries,
    `pending`, "all threads exited" are those of the run; `busy` is at most the run's (the replay has retired the workers
    whose job is over) -/
theorem C05_replay_rel_observables {x s : FState Nat Nat} (h : Rel P x s) :
    x.c.gen = s.c.gen ∧ x.c.stateCount = s.c.stateCount ∧ x.c.disc = s.c.disc ∧ x.c.frontier = s.c.frontier ∧
    x.c.maxDepth = s.c.maxDepth ∧ x.c.visits = s.c.visits ∧ x.c.stopped = s.c.stopped ∧ x.ft = s.ft ∧
    x.m.isOpen = s.m.isOpen ∧ x.m.batches = s.m.batches ∧ x.m.locs = s.m.locs ∧ x.m.openCount = s.m.openCount ∧
    x.m.pcs.all (· == Pc.exited) = s.m.pcs.all (· == Pc.exited) ∧
    x.c.active.length ≤ s.c.active.length :=
  rel_observables h

/-- in particular, when the run has ended (nobody works any more), `tv` answers exactly with the run's numbers -/
theorem C05_trace_validation_complete_final (mode : Mode) (hm : mode ≠ .ondemand) (k notw : Nat) (hk : k ≤ notw)
    (fs : List FStep) (hd : disciplined P (mode == .dfs) (finit P k) fs = true)
    (hq : (frun P k fs).1.c.active = []) :
    ∃ tv, replay P k mode (tv0 P k) 1 (record P notw (finit P k) fs) = .ok tv ∧
      tv.x.c.gen.length = (frun P k fs).1.c.gen.length ∧ tv.x.c.stateCount = (frun P k fs).1.c.stateCount ∧
      tv.x.c.disc = (frun P k fs).1.c.disc ∧ tv.x.c.frontier.length = (frun P k fs).1.c.frontier.length ∧
      tv.x.c.active.length = 0 ∧
      tv.x.m.pcs.all (· == Pc.exited) = (frun P k fs).1.m.pcs.all (· == Pc.exited) := by
  obtain ⟨tv, h1, h2⟩ := C05_trace_validation_complete P mode hm k notw hk fs hd
  obtain ⟨g, c, d, f, -, -, -, -, -, -, -, -, e, a⟩ := rel_observables h2
  refine ⟨tv, h1, by rw [g], c, d, by rw [f], ?_, e⟩
  rw [hq] at a
  exact Nat.le_zero.1 a

/-- **on_demand.rs: partial.**  Every step of the product except `take` and `discard` is accepted in on-demand mode too
    (its entries are the same).  MISSING for `Mode.ondemand`: the block structure of on_demand.rs (`TR_BLOCK`: a block
    drains the deque into a local stack, `take` = pop of that stack, `TR_BLOCK_END`: the drained jobs are dropped) is not
    a step of the product, so the log of a run is not a function of its `FStep`s; a completeness statement needs a model
    of the block loop on top of `Checker/Full.lean`. -/
theorem C05_trace_validation_complete_ondemand_partial (k notw : Nat) (hk : k ≤ notw) (tv : TV) (s s' : FState Nat Nat)
    (f : FStep) (ms : List Step) (cs : List Choice) (h : TRel P k tv s) (hb : Book tv s)
    (hs : fstep P s f = some (s', ms, cs)) (hd : disc false s f = true) (hf : ∀ w p, f ≠ .take w p) (i : Nat) :
    ∃ tv', replay P k .ondemand tv i (entries P notw s f s') = .ok tv' ∧ TRel P k tv' s' := by
  cases f with
  | pop w => exact complete_pop h hs i
  | wake w => exact complete_wake h hs i
  | split w picks => obtain ⟨tv', h1, h2, -⟩ := complete_split (notw := notw) h hb hs i; exact ⟨tv', h1, h2⟩
  | take w p => exact (hf w p rfl).elim
  | discard w p => simp [disc] at hd
  | evalProp w b => exact complete_evalProp h hs i
  | finishProps w => exact complete_finishProps h hs i
  | expand w front tok back => exact complete_expand (mode := .ondemand) (dfs := false) rfl h hs hd i
  | record w => exact complete_record h hs i
  | stop w why =>
    obtain ⟨tv', h1, h2, -⟩ := complete_stop (notw := notw) h hb hs (by simpa [disc] using hd) i; exact ⟨tv', h1, h2⟩
  | exit w => obtain ⟨tv', h1, h2, -⟩ := complete_exit (notw := notw) h hb hs i; exact ⟨tv', h1, h2⟩
  | timeout => exact complete_timeout h hs i
  | xdrop => exact complete_xdrop hk h hs i

/-! Non-vacuity: the 2-worker and the 3-worker run of `Props/C05Full.lean` (round-robin scheduler: work is shared through
`split_and_push`, workers park and are woken, the last one closes the market, all threads exit) are disciplined bfs
runs; their logs are accepted and `tv` ends with the numbers of the runs. -/

/-- the log of `fs` is accepted and the replay ends with the run's `uniq`, `count`, discoveries, `pending` -/
def accepted (P : Params Nat Nat Nat) (mode : Mode) (k : Nat) (fs : List FStep) : Bool :=
  match replay P k mode (tv0 P k) 1 (record P 99999 (finit P k) fs) with
  | .ok tv =>
    tv.x.c.gen == (frun P k fs).1.c.gen && tv.x.c.stateCount == (frun P k fs).1.c.stateCount &&
      tv.x.c.disc == (frun P k fs).1.c.disc && tv.x.c.frontier.length == (frun P k fs).1.c.frontier.length &&
      tv.x.c.active.length == 0 && tv.x.m.pcs.all (· == Pc.exited)
  | .error _ => false

def exFs2 : List FStep := fsched C01.exParams 2 400 0 (finit C01.exParams 2)

example : disciplined C01.exParams false (finit C01.exParams 2) exFs2 = true ∧
    accepted C01.exParams .bfs 2 exFs2 = true ∧ 20 < (record C01.exParams 99999 (finit C01.exParams 2) exFs2).length ∧
    (record C01.exParams 99999 (finit C01.exParams 2) exFs2).length < exFs2.length := by decide +kernel

/-- a dfs run: the scheduler's steps with new jobs pushed at the back -/
def fschedDfs (P : Params Nat Nat Nat) (k : Nat) : Nat → Nat → FState Nat Nat → List FStep
  | 0, _, _ => []
  | fuel + 1, start, x =>
    match pickFrom P x k start with
    | none => []
    | some (w, f) =>
      let f' := match f with
        | .expand w _ tok _ => FStep.expand w false tok true
        | f => f
      match fstep P x f' with
      | none => []
      | some (x', _, _) => f' :: fschedDfs P k fuel ((w + 1) % k) x'

def exFsD : List FStep := fschedDfs C01.exParams 2 400 0 (finit C01.exParams 2)

example : disciplined C01.exParams true (finit C01.exParams 2) exFsD = true ∧
    accepted C01.exParams .dfs 2 exFsD = true ∧ 20 < exFsD.length := by decide +kernel

/-- a run with a stop (`finish_when`) while the colleague still holds jobs, accepted as well -/
example : disciplined { C01.exParams with finishMatches := fun _ => true } false
      (finit { C01.exParams with finishMatches := fun _ => true } 2)
      [.pop 0, .take 0 1, .evalProp 0 false, .stop 1 .finish, .finishProps 0, .expand 0 true 2 false,
       .expand 0 true 3 false, .expand 0 true 4 false, .exit 0] = true ∧
    accepted { C01.exParams with finishMatches := fun _ => true } .bfs 2
      [.pop 0, .take 0 1, .evalProp 0 false, .stop 1 .finish, .finishProps 0, .expand 0 true 2 false,
       .expand 0 true 3 false, .expand 0 true 4 false, .exit 0] = true := by decide +kernel

/-- an interleaved log: the `TR_STOP` of worker 1 comes two entries (of worker 0) before its `TR_DROP`; and the same run
    with the announcement missing, or wrong, is not a log the hooks write (`itemsOk` fails) -/
example :
    let Pf : Params Nat Nat Nat := { C01.exParams with finishMatches := fun _ => true }
    let is : List Item := [.step (.pop 0), .stopping 1 1, .step (.take 0 1), .step (.evalProp 0 false),
      .step (.stop 1 .finish), .step (.finishProps 0), .step (.expand 0 true 2 false), .step (.expand 0 true 3 false),
      .step (.expand 0 true 4 false), .stopping 0 3, .step (.exit 0)]
    itemsOk Pf false [] [] (finit Pf 2) is = true ∧
    (match replay Pf 2 .bfs (tv0 Pf 2) 1 (itemLog Pf 99999 (finit Pf 2) is) with
      | .ok tv => tv.x.c.disc == (frun Pf 2 (itemSteps is)).1.c.disc && tv.x.m.pcs.all (· == Pc.exited)
      | .error _ => false) = true ∧
    itemsOk Pf false [] [] (finit Pf 2) [.step (.pop 0), .step (.stop 1 .finish)] = false ∧
    itemsOk Pf false [] [] (finit Pf 2) [.step (.pop 0), .stopping 1 2, .step (.stop 1 .finish)] = false := by
  decide +kernel

/-- the items of a run with every step's bookkeeping entries right before it: the scheduler's 2-worker run (it shares
    work: `TR_SPLIT_PIECE` entries) satisfies `itemsOk` -/
def toItems (P : Params Nat Nat Nat) (s : FState Nat Nat) : List FStep → List Item
  | [] => []
  | f :: fs =>
    match fstep P s f with
    | none => toItems P s fs
    | some (s', _, _) =>
      (match f with
        | .split w _ => if s.m.isOpen then (pieceSizes s s').map (Item.piece w) else []
        | .stop w .finish => [Item.stopping w 1]
        | .stop w .target => [Item.stopping w 2]
        | .exit w => [Item.stopping w 4]
        | _ => []) ++ Item.step f :: toItems P s' fs

example : itemsOk C01.exParams false [] [] (finit C01.exParams 2) (toItems C01.exParams (finit C01.exParams 2) exFs2) = true ∧
    ((toItems C01.exParams (finit C01.exParams 2) exFs2).any fun | .piece _ _ => true | _ => false) = true := by
  decide +kernel

/-- the discipline matters: a bfs-disciplined run that takes from the FRONT of a deque of two jobs is rejected — by
    design: the hooks of bfs.rs cannot produce such a log (`pop_back`) -/
example : disciplined C01.exParams false (finit C01.exParams 2) [.pop 0, .take 0 0] = false ∧
    (match replay C01.exParams 2 .bfs (tv0 C01.exParams 2) 1 (record C01.exParams 99999 (finit C01.exParams 2) [.pop 0, .take 0 0]) with
      | .ok _ => false | .error _ => true) = true := by decide +kernel

end tv

end SR.CReplayComplete
