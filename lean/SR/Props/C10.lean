/-! # C10 — property theorems (stub: nothing stated yet) -/
namespace SR.C10
end SR.C10
