import SR.Proofs.RewriteReindex
/-!
# C10 — symmetry reduction preserves verdicts; representatives stay in their orbit

Property theorems only.  Parts (a) rewrite plans and (b) representative; part (c) (reduction in the DFS
checker) is the lead's section at the end.

Models: `DNM.planOf` (src/checker/rewrite_plan.rs `from_values_to_sort`), `RW.reindexO` (`reindex`),
`RW.rwVal` (src/checker/rewrite.rs + network.rs + model_state.rs `Rewrite<Id>` impls over the value universe
of `SR.Hash.Univ`), `RW.representative` (src/actor/model_state.rs).  A plan is the list `plan[i]` = new index
of old index `i`.  `plan.rewrite(id)` PANICS for ids outside the plan: modelled as `none`.
-/
namespace SR.C10
open SR SR.RW SR.Hash SR.DNM

section plans
variable {V : Type} (le : V → V → Bool)

/-- (a) The plan is a bijection on the indices `0..n-1`. -/
theorem C10_plan_perm (vs : List V) :
    (planOf le vs).Perm (List.range vs.length) ∧ (planOf le vs).length = vs.length :=
  ⟨planOf_perm le vs, planOf_length le vs⟩

/-- (a) sorted: a strictly smaller value gets a strictly smaller new index (`le` = the values' `Ord`, total
and transitive; `vs[i] < vs[j]` is `¬ vs[j] ≤ vs[i]`). -/
theorem C10_plan_sorted (htr : ∀ a b c : V, le a b = true → le b c = true → le a c = true)
    (hto : ∀ a b : V, (le a b || le b a) = true) (vs : List V) (i j : Nat) (hi : i < vs.length) (hj : j < vs.length)
    (hlt : le vs[j] vs[i] = false) :
    ∃ pi pj, (planOf le vs)[i]? = some pi ∧ (planOf le vs)[j]? = some pj ∧ pi < pj :=
  planOf_sorted le htr hto vs i j hi hj hlt

/-- (a) stable: among equal values (indeed whenever `vs[i] ≤ vs[j]`) the original order is kept — so the plan
is THE stable sorting permutation. -/
theorem C10_plan_stable (htr : ∀ a b c : V, le a b = true → le b c = true → le a c = true)
    (hto : ∀ a b : V, (le a b || le b a) = true) (vs : List V) (i j : Nat) (hij : i < j) (hj : j < vs.length)
    (hle : le (vs[i]'(by omega)) vs[j] = true) :
    ∃ pi pj, (planOf le vs)[i]? = some pi ∧ (planOf le vs)[j]? = some pj ∧ pi < pj :=
  planOf_stable le htr hto vs i j hij hj hle

/-- (a) sorted + stable determine the plan completely: for `i < j`, `plan i < plan j` iff `vs[i] ≤ vs[j]`. -/
theorem C10_plan_iff (htr : ∀ a b c : V, le a b = true → le b c = true → le a c = true)
    (hto : ∀ a b : V, (le a b || le b a) = true) (vs : List V) (i j : Nat) (hij : i < j) (hj : j < vs.length) :
    (∃ pi pj, (planOf le vs)[i]? = some pi ∧ (planOf le vs)[j]? = some pj ∧ pi < pj) ↔
      le (vs[i]'(by omega)) vs[j] = true := by
  constructor
  · rintro ⟨pi, pj, e1, e2, h⟩
    cases hle : le (vs[i]'(by omega)) vs[j] with
    | true => rfl
    | false =>
      obtain ⟨qj, qi, f1, f2, h'⟩ := planOf_sorted le htr hto vs j i hj (by omega) hle
      rw [e1] at f2; rw [e2] at f1
      injection f1 with f1; injection f2 with f2
      omega
  · exact planOf_stable le htr hto vs i j hij hj
end plans

/-- (a) reindex: on success the result has the plan's length and holds the REWRITTEN element `i` at position
`plan i`; it fails (panics) exactly when the collection is shorter than the plan or an element rewrite panics. -/
theorem C10_reindex {α} (plan : List Nat) (hperm : plan.Perm (List.range plan.length))
    (rw : α → Option α) (xs ys : List α) :
    reindexO plan rw xs = some ys ↔
      ys.length = plan.length ∧ ∀ i (hi : i < plan.length), (xs[i]?).bind rw = ys[plan[i]]? :=
  reindexO_some_iff hperm rw xs ys

/-- (a) reindex = the declarative placement (element `i` to position `plan i`) of the rewritten prefix. -/
theorem C10_reindex_place {α} (plan : List Nat) (hperm : plan.Perm (List.range plan.length))
    (rw : α → Option α) (xs : List α) :
    reindexO plan rw xs = ((xs.take plan.length).mapM rw).bind (place plan) :=
  reindexO_eq_place hperm rw xs

/-- (a) `rewrite` commutes with the container structure: ids are mapped through the plan (`none` = panic
outside it), scalars are untouched, every container rewrites its components and re-collects them
(`BTreeMap`/`BTreeSet` re-sorted by the NEW keys, hash tables re-inserted), an `Envelope` rewrites src, dst and
payload, a `Network` keeps its kind and rewrites its set / multiset / flow map (flow keys `(src,dst)` included). -/
theorem C10_rewrite_containers (p : Nat → Option Nat) :
    (∀ n : Nat, rwVal p .id n = p n) ∧
    (∀ n : Nat, rwVal p .u8 n = some n) ∧ (∀ s : List Nat, rwVal p .str s = some s) ∧
    (∀ (a b : Ty) (x : Val a × Val b), rwVal p (.tup a b) x = rwPair (rwVal p a) (rwVal p b) x) ∧
    (∀ (t : Ty), rwVal p (Ty.opt t) (.inl ()) = some (.inl ())) ∧
    (∀ (t : Ty) (x : Val t), rwVal p (Ty.opt t) (.inr x) = (rwVal p t x).map Sum.inr) ∧
    (∀ (t : Ty) (l : List (Val t)), rwVal p (.vec t) l = l.mapM (rwVal p t)) ∧
    (∀ (t : Ty) (l : List (Val t)), rwVal p (.deque t) l = l.mapM (rwVal p t)) ∧
    (∀ (t : Ty) (l : List (Val t)), rwVal p (.bset t) l = (l.mapM (rwVal p t)).map (bsetCollect (cmpVal t))) ∧
    (∀ (k v : Ty) (l : List (Val k × Val v)),
      rwVal p (.bmap k v) l = (l.mapM (rwPair (rwVal p k) (rwVal p v))).map (bmapCollect (cmpVal k))) ∧
    (∀ (t : Ty) (l : List (Val t)), rwVal p (.hset t) l = (l.mapM (rwVal p t)).map (hsetCollect (equivB t))) ∧
    (∀ (k v : Ty) (l : List (Val k × Val v)),
      rwVal p (.hmap k v) l = (l.mapM (rwPair (rwVal p k) (rwVal p v))).map (hmapCollect (equivB k))) ∧
    (∀ (m : Ty) (src dst : Nat) (msg : Val m),
      rwVal p (Ty.env m) (src, (dst, msg)) = rwPair p (rwPair p (rwVal p m)) (src, (dst, msg))) ∧
    (∀ (m : Ty) (x : Val (.tup (.hset (Ty.env m)) (Ty.opt (Ty.env m)))),
      rwVal p (Ty.net m) (.inl x) = (rwVal p _ x).map Sum.inl) ∧
    (∀ (m : Ty) (x : Val (.hmap (Ty.env m) .usize)),
      rwVal p (Ty.net m) (.inr (.inl x)) = (rwVal p _ x).map (Sum.inr ∘ Sum.inl)) ∧
    (∀ (m : Ty) (x : Val (.bmap (.tup .id .id) (.deque m))),
      rwVal p (Ty.net m) (.inr (.inr x)) = (rwVal p _ x).map (Sum.inr ∘ Sum.inr)) := by
  refine ⟨?_, ?_, ?_, ?_, ?_, ?_, ?_, ?_, ?_, ?_, ?_, ?_, ?_, ?_, ?_, ?_⟩ <;> intros <;> rfl

/-! ## (b) representative -/

/-- (b) `representative` IS the image of the state under the one permutation `planOf st.actors` (the stable
sorting permutation of the actor states): actor `i` — state, timers, pending choices, crash flag — moves to
position `π i`; ids in actor states, envelopes, choices and history become `π id`; ids outside `0..n-1` and
per-actor vectors shorter than `n` make both sides `none` (the real code panics).  Timer VALUES are moved but
not rewritten (`applyPerm false`): `Timers::rewrite` is `clone`.

FULL statement (DESIGN §5.C10): `representative st = applyPerm true (planOf st.actors) st`, i.e. ids inside timer
values renamed as well.  It is FALSE of the current code when the timer type carries ids
(`C10_timer_ids_not_rewritten`, concrete witness) and TRUE whenever rewriting leaves the timer sets alone
(`C10_representative`, in particular for every id-free timer type). -/
theorem C10_representative_partial {s m t r hist : Ty} (st : St s m t r hist) :
    representative st = applyPerm false (planOf (leVal s) st.actors) st := by
  have hl := planOf_length (leVal s) st.actors
  have hperm : (planOf (leVal s) st.actors).Perm (List.range (planOf (leVal s) st.actors).length) := by
    rw [hl]; exact planOf_perm (leVal s) st.actors
  unfold representative applyPerm
  simp only [reindexO_eq_place hperm, mapM_id_some, Option.bind_some, Bool.false_eq_true, if_false,
    Option.bind_eq_bind, Option.bind_assoc]

/-- (b) the full-strength statement, for states whose timer sets are unchanged by the rewrite (every id-free
timer type: `()`, integers, strings, fieldless enums, …). -/
theorem C10_representative {s m t r hist : Ty} (st : St s m t r hist)
    (hT : ∀ x ∈ st.timers.take (planOf (leVal s) st.actors).length,
      rwVal (planFn (planOf (leVal s) st.actors)) (Ty.timers t) x = some x) :
    representative st = applyPerm true (planOf (leVal s) st.actors) st := by
  rw [C10_representative_partial]
  unfold applyPerm
  simp only [if_true, Bool.false_eq_true, if_false]
  rw [mapM_congr' _ some _ hT]

/-- what "image under one permutation" means, spelled out: whenever `applyPerm` succeeds for a permutation `π`
of `0..n-1`, position `π i` of every per-actor vector holds actor `i`'s (rewritten) entry, and network and
history are rewritten by the same `π`. -/
theorem C10_applyPerm_spec {s m t r hist : Ty} (b : Bool) (π : List Nat)
    (hperm : π.Perm (List.range π.length)) (st st' : St s m t r hist) (h : applyPerm b π st = some st') :
    st'.actors.length = π.length ∧ st'.timers.length = π.length ∧ st'.crashed.length = π.length ∧
    st'.choices.length = π.length ∧
    rwVal (planFn π) (Ty.net m) st.net = some st'.net ∧ rwVal (planFn π) hist st.history = some st'.history ∧
    ∀ i (hi : i < π.length),
      (st.actors[i]?).bind (rwVal (planFn π) s) = st'.actors[π[i]]? ∧
      (st.timers[i]?).bind (if b then rwVal (planFn π) (Ty.timers t) else some) = st'.timers[π[i]]? ∧
      st.crashed[i]? = st'.crashed[π[i]]? ∧
      (st.choices[i]?).bind (rwChoiceMap (planFn π) r) = st'.choices[π[i]]? := by
  have key : ∀ {α} (rw : α → Option α) (xs ys : List α),
      ((xs.take π.length).mapM rw).bind (place π) = some ys →
      ys.length = π.length ∧ ∀ i (hi : i < π.length), (xs[i]?).bind rw = ys[π[i]]? := by
    intro α rw xs ys hh
    rw [← reindexO_eq_place hperm] at hh
    exact (reindexO_some_iff hperm rw xs ys).1 hh
  unfold applyPerm at h
  simp only [Option.bind_eq_bind] at h
  cases ha : (st.actors.take π.length).mapM (rwVal (planFn π) s) with
  | none => simp [ha] at h
  | some a1 =>
  cases ha2 : place π a1 with
  | none => simp [ha, ha2] at h
  | some a2 =>
  cases hn : rwVal (planFn π) (Ty.net m) st.net with
  | none => simp [ha, ha2, hn] at h
  | some n1 =>
  cases ht : (st.timers.take π.length).mapM (if b then rwVal (planFn π) (Ty.timers t) else some) with
  | none => simp [ha, ha2, hn, ht] at h
  | some t1 =>
  cases ht2 : place π t1 with
  | none => simp [ha, ha2, hn, ht, ht2] at h
  | some t2 =>
  cases hc : (st.choices.take π.length).mapM (rwChoiceMap (planFn π) r) with
  | none => simp [ha, ha2, hn, ht, ht2, hc] at h
  | some c1 =>
  cases hc2 : place π c1 with
  | none => simp [ha, ha2, hn, ht, ht2, hc, hc2] at h
  | some c2 =>
  cases hk : place π (st.crashed.take π.length) with
  | none => simp [ha, ha2, hn, ht, ht2, hc, hc2, hk] at h
  | some k2 =>
  cases hh : rwVal (planFn π) hist st.history with
  | none => simp [ha, ha2, hn, ht, ht2, hc, hc2, hk, hh] at h
  | some h1 =>
  simp only [ha, ha2, hn, ht, ht2, hc, hc2, hk, hh, Option.bind_some, Option.pure_def, Option.some.injEq] at h
  subst h
  obtain ⟨la, pa⟩ := key (rwVal (planFn π) s) st.actors a2 (by rw [ha]; exact ha2)
  obtain ⟨lt, pt⟩ := key (if b then rwVal (planFn π) (Ty.timers t) else some) st.timers t2 (by rw [ht]; exact ht2)
  obtain ⟨lc, pc⟩ := key (rwChoiceMap (planFn π) r) st.choices c2 (by rw [hc]; exact hc2)
  obtain ⟨lk, pk⟩ := key some st.crashed k2 (by rw [mapM_id_some]; exact hk)
  refine ⟨la, lt, lk, lc, rfl, rfl, fun i hi => ⟨pa i hi, pt i hi, ?_, pc i hi⟩⟩
  have := pk i hi
  cases hx : st.crashed[i]? <;> simpa [hx] using this

/-! ### timer VALUES that carry ids are not rewritten (divergence from the full-strength reading)

`impl Rewrite<Id> for Timers<T>` is `self.clone()` (it does not even require `T: Rewrite<Id>`), so a timer whose
value mentions an actor id keeps the OLD id while everything else is renamed: the representative is then NOT
the image of the state under one permutation "applied consistently to … timers".  Witness below; confirmed on
the implementation by harness/src/bin/c10.rs (`timer-id-witness`).  For Id-free timer types (the usual case:
`()`, small enums) `applyPerm true` and `applyPerm false` coincide and `C10_representative` is the full claim. -/

/-- two actors with states 1 and 0 (so the plan swaps them); actor 0 holds a timer whose VALUE is `Id(0)` (itself) -/
def wit : St .u8 .u8 .id .u8 .unit :=
  { actors := ([1, 0] : List Nat), history := (), timers := ([[0], []] : List (List Nat)),
    net := (Sum.inr (Sum.inr ([] : List ((Nat × Nat) × List Nat)))),
    crashed := [false, false], choices := [[], []] }

theorem C10_example_plan : planOf (fun (a b : Nat) => compare a b != Ordering.gt) [1, 0] = [1, 0] := by
  have c : compare (1 : Nat) 0 = Ordering.gt := by decide
  simp [DNM.planOf, List.mergeSort, List.MergeSort.Internal.splitInTwo, List.merge, List.range, List.range.loop,
    List.zip, List.zipWith, c]

theorem C10_witness_plan : planOf (leVal .u8) wit.actors = [1, 0] := C10_example_plan

def timersOf (o : Option (St .u8 .u8 .id .u8 .unit)) : Option (List (List Nat)) := o.map (·.timers)

/-- the code: the timer moves with its actor to position 1 but still says `Id(0)` -/
theorem C10_witness_code : timersOf (representative wit) = some [[], [0]] := by
  rw [C10_representative_partial, C10_witness_plan]
  decide

/-- the image under the permutation: the timer says `Id(1)`, the actor's new name -/
theorem C10_witness_image : timersOf (applyPerm true (planOf (leVal .u8) wit.actors) wit) = some [[], [1]] := by
  rw [C10_witness_plan]
  decide

/-- hence: with id-carrying timer values the representative is not the image under the plan's permutation -/
theorem C10_timer_ids_not_rewritten :
    timersOf (representative wit) ≠ timersOf (applyPerm true (planOf (leVal .u8) wit.actors) wit) := by
  rw [C10_witness_code, C10_witness_image]; decide

-- (c) reduction: lead

end SR.C10
