import SR.Proofs.Checker.FullF
import SR.Checker.FullSched
import SR.Proofs.Checker.FullReplay
import SR.Proofs.Checker.FullG
import SR.Props.C01
import SR.Props.C02
/-!
# C05 (and the multi-threaded reading of C01/C02) — the concurrent checker refines the checker machine

Property theorems only.  `SR/Checker/Full.lean` is the product of the job market (`SR/Market/Machine.lean`, the model
of src/job_market.rs) and the checker machine (`SR/Checker/Machine.lean`): `k` worker threads with their own deques,
jobs travelling through `pop` / `split_and_push`, one step per critical section of the market or per atomic section
of `check_block`.  Every theorem below is about `frun P k fs` for ALL step lists `fs` (steps that are not enabled are
skipped): every interleaving of the workers, the timeout thread and the owner of the checker, every queue discipline,
every resolution of `notify_one`, spurious wake-ups, panics in model code.

What this closes: the machine theorems (C01–C03, C05a, C09–C13) quantify over all choice lists but keep all pending jobs in
one list; the market theorems (C05b) quantify over all interleavings but know nothing about what a job is.  Here the two
are composed, so "no pending job is lost or evaluated by two workers" + "the checker explores exactly the reachable
states" become ONE statement about the multi-threaded checker: `C05_full_exact`, `C05_full_verdicts`.
-/
namespace SR.C05F
open SR SR.Checker SR.Market SR.Full

variable {σ κ α : Type} [DecidableEq κ] (P : Params σ κ α)

/-- **Refinement.**  Every run of the concurrent checker is, component-wise, a run of the job market (from
    `JobBroker::new(k)` and the push of the initial jobs) and a run of the checker machine: it reports the market
    steps and the machine choices it performed, and its state is what they produce.  So every market theorem (C05b) and
    every machine theorem holds of the multi-threaded checker. -/
theorem C05_full_refines (k : Nat) (fs : List FStep) :
    (frun P k fs).1.m =
      mrun (Market.init k k)
        (Step.xpush (List.range (Checker.init P.M P.props P.key).frontier.length) [] :: (frun P k fs).2.1) ∧
    (frun P k fs).1.c = run P (frun P k fs).2.2 := by
  obtain ⟨h1, h2⟩ := frunFrom_proj (P := P) fs (finit P k)
  refine ⟨?_, h2⟩
  show (frunFrom P (finit P k) fs).1.m = _
  rw [h1, finit_m]
  simp only [mrun, List.foldl_cons, xpush_init, Option.getD_some]
  rfl

/-- **Coupling.**  At every moment the jobs physically present in the shared batches and the workers' deques are exactly
    the pending jobs of the machine (`ft`, which lists a token for every entry of the machine's frontier, is a
    permutation of the tokens in the market; no token occurs twice), every worker the machine considers busy is a
    thread that is not waiting, and a thread that waits or has left holds no jobs. -/
theorem C05_full_coupling (k : Nat) (fs : List FStep) :
    (frun P k fs).1.ft.Perm (tokensIn (frun P k fs).1.m) ∧
    (frun P k fs).1.ft.length = (frun P k fs).1.c.frontier.length ∧
    (tokensIn (frun P k fs).1.m).Nodup ∧
    (frun P k fs).1.aw.length = (frun P k fs).1.c.active.length ∧
    (∀ w ∈ (frun P k fs).1.aw, (frun P k fs).1.m.pcs[w]? = some Pc.running) ∧
    (∀ w, (frun P k fs).1.m.pcs[w]? ≠ some Pc.running → locOf (frun P k fs).1.m w = []) := by
  have inv : FInv (frun P k fs).1 := frunFrom_inv (P := P) fs (finit P k) (finv_init P k)
  have hperm : (frun P k fs).1.ft.Perm (tokensIn (frun P k fs).1.m) := List.perm_iff_count.2 inv.cnt
  exact ⟨hperm, inv.len, hperm.nodup_iff.1 inv.nodup, inv.awlen, inv.awrun, inv.idle⟩

/-- **Jobs are discarded only after a stop.**  If the market is closed, then either the machine has stopped (a worker
    left for `finish_when` / `target_state_count` / a panic, the timeout fired, the checker was dropped) — or nothing is
    pending anywhere and nobody is working: the market was closed by the last worker that found no work. -/
theorem C05_full_closed (k : Nat) (fs : List FStep) (hc : (frun P k fs).1.m.isOpen = false) :
    (frun P k fs).1.c.stopped = true ∨
    ((frun P k fs).1.c.frontier = [] ∧ (frun P k fs).1.c.active = []) := by
  have inv : FInv (frun P k fs).1 := frunFrom_inv (P := P) fs (finit P k) (finv_init P k)
  rcases inv.closed hc with h | ⟨h1, h2⟩
  · exact Or.inl h
  · right
    have hft : (frun P k fs).1.ft = [] := eq_nil_of_count fun u => by rw [inv.cnt u, h1]; rfl
    refine ⟨List.eq_nil_of_length_eq_zero ?_, List.eq_nil_of_length_eq_zero ?_⟩
    · rw [← inv.len, hft]; rfl
    · rw [← inv.awlen, h2]; rfl

/-- **`join` returns to a finished machine.**  When every worker thread is gone, nothing is pending and nobody is
    working: the machine is quiescent. -/
theorem C05_full_join (k : Nat) (hk : 0 < k) (fs : List FStep) (hex : allExited (frun P k fs).1) :
    Quiescent (frun P k fs).1.c := by
  have inv : FInv (frun P k fs).1 := frunFrom_inv (P := P) fs (finit P k) (finv_init P k)
  obtain ⟨hm, _⟩ := C05_full_refines P k fs
  have hlen : (frun P k fs).1.m.pcs.length = k := by
    rw [hm, mrun_pcs_length]; simp [Market.init]
  have hnr : ∀ v : Nat, (frun P k fs).1.m.pcs[v]? ≠ some Pc.running := by
    intro v hv
    have := hex _ (List.mem_of_getElem? hv)
    cases this
  have hexm : Pc.exited ∈ (frun P k fs).1.m.pcs := by
    have h0 : 0 < (frun P k fs).1.m.pcs.length := by omega
    have := hex _ (List.getElem_mem h0)
    rw [← this]; exact List.getElem_mem h0
  have hb : (frun P k fs).1.m.batches = [] := (inv.mi.p.dropped (inv.mi.p.exited hexm)).2
  have ht : tokensIn (frun P k fs).1.m = [] := tokens_nil_of_idle hb (fun v => inv.idle v (hnr v))
  have hft : (frun P k fs).1.ft = [] := eq_nil_of_count fun u => by rw [inv.cnt u, ht]; rfl
  have haw : (frun P k fs).1.aw = [] := by
    apply List.eq_nil_iff_forall_not_mem.2
    intro v hv
    exact hnr v (inv.awrun v hv)
  refine ⟨List.eq_nil_of_length_eq_zero ?_, List.eq_nil_of_length_eq_zero ?_⟩
  · rw [← inv.len, hft]; rfl
  · rw [← inv.awlen, haw]; rfl

/-- **Never stuck** (the market's no-lost-wake-up theorem, composed): at every moment of every run, as long as some worker
    thread is still there, either a worker that is RUNNING has an enabled step (continue with its job, take the next job
    from its deque, or call `pop`), or a waiting worker has been NOTIFIED and can wake.  The situation "everybody waits
    on the condition variable and nobody will ever call `notify`" does not occur.  (That the operating system then
    actually schedules such a worker is the fairness assumption; with it and `C05_bounded_work` every run ends.) -/
theorem C05_full_never_stuck (k : Nat) (fs : List FStep) (h : ¬ allExited (frun P k fs).1) :
    (∃ w f r, (frun P k fs).1.m.pcs[w]? = some Pc.running ∧ fstep P (frun P k fs).1 f = some r ∧
        (f = .pop w ∨ f = .take w 0 ∨ f = .evalProp w false)) ∨
    (∃ w r, (frun P k fs).1.m.pcs[w]? = some (Pc.parked true) ∧ fstep P (frun P k fs).1 (.wake w) = some r) :=
  not_stuck (P := P) _ (frunFrom_inv (P := P) fs (finit P k) (finv_init P k)) h

/-- **C01 for the multi-threaded checker.**  All workers gone, no early exit (no stop, no depth limit hit, not
    everything discovered before the end), no fingerprint collision among reachable states: the evaluated states are
    exactly the reachable in-boundary states, the generated keys are duplicate-free and are exactly their keys — for every
    thread count and every schedule. -/
theorem C05_full_exact (hinj : ∀ a b, P.M.Reach a → P.M.Reach b → P.key a = P.key b → a = b)
    (k : Nat) (hk : 0 < k) (fs : List FStep) (hex : allExited (frun P k fs).1)
    (he : (frun P k fs).1.c.early = false) :
    (∀ t, P.M.Reach t ↔ t ∈ visitedStates (frun P k fs).1.c) ∧
    (frun P k fs).1.c.gen.Nodup ∧ (∀ key, key ∈ (frun P k fs).1.c.gen ↔ ∃ t, P.M.Reach t ∧ P.key t = key) := by
  have hq := C05_full_join P k hk fs hex
  obtain ⟨_, hc⟩ := C05_full_refines P k fs
  rw [hc] at hq he ⊢
  exact C01.C01_exact P hinj _ hq he

/-- **C02 for the multi-threaded checker**: after `join`, unless the run was cut short, a property that is not an
    eventually-property has a discovery iff a reachable state is a witness (always: violates it; sometimes: satisfies
    it). -/
theorem C05_full_verdicts (hinj : ∀ a b, P.M.Reach a → P.M.Reach b → P.key a = P.key b → a = b)
    (k : Nat) (hk : 0 < k) (fs : List FStep) (hex : allExited (frun P k fs).1)
    (he : (frun P k fs).1.c.early = false ∨ allDiscovered P (frun P k fs).1.c = true)
    (i : Nat) (pr : Prop' σ) (hpr : P.props[i]? = some pr) :
    (pr.exp = .always → (hasDisc (frun P k fs).1.c.disc i = true ↔ ∃ t, P.M.Reach t ∧ pr.cond t = false)) ∧
    (pr.exp = .sometimes → (hasDisc (frun P k fs).1.c.disc i = true ↔ ∃ t, P.M.Reach t ∧ pr.cond t = true)) := by
  have hq := C05_full_join P k hk fs hex
  obtain ⟨_, hc⟩ := C05_full_refines P k fs
  rw [hc] at hq he ⊢
  exact ⟨fun hexp => C02.C02_always P hinj _ ⟨hq, he⟩ i pr hpr hexp,
         fun hexp => C02.C02_sometimes P hinj _ ⟨hq, he⟩ i pr hpr hexp⟩

/-- **The trace validator accepts only runs of the product.**  `SR/Drv/Full.lean` (driver command `tv`) replays the entries
    recorded by the trace hooks during a real multi-threaded `spawn_bfs` / `spawn_dfs` run; if it accepts the trace, the
    state it ends in is the state of a run `frun P k fs` of the concurrent checker — so the theorems above hold of the very
    run that was observed (and its final counts and discoveries, which the check compares with what the checker reported,
    are those of that run). -/
theorem C05_trace_validation_sound (P : Params Nat Nat Nat) (k : Nat) (mode : Drv.Full.Mode) (es : List Drv.Full.Ev)
    (tv : Drv.Full.TV)
    (h : Drv.Full.replay P k mode { x := finit P k, reason := [], pieces := [] } 1 es = .ok tv) :
    ∃ fs : List FStep, tv.x = (frun P k fs).1 :=
  Drv.Full.isRun_replay P k mode es _ tv 1 (Drv.Full.isRun_refl P (finit P k)) h

/-! ### Non-vacuity: concrete runs of the concurrent checker that reach "all workers gone" without a stop and without an
early exit — 2 workers on the 5-state graph of `Props/C01.lean` (the round-robin scheduler of `Checker/FullSched.lean`:
work is shared through `split_and_push`, workers park and are woken, the last one closes the market), and 3 workers on
an 8-state graph with three initial states. -/

instance (x : FState Nat Nat) : Decidable (allExited x) := by unfold allExited; infer_instance

def exRun2 : FState Nat Nat × List Step × List Choice :=
  frun C01.exParams 2 (fsched C01.exParams 2 400 0 (finit C01.exParams 2))

example : allExited exRun2.1 ∧ exRun2.1.c.stopped = false ∧ exRun2.1.c.early = false ∧
    exRun2.1.c.gen.length = 4 ∧ exRun2.1.c.done.length = 4 ∧ exRun2.1.m.isOpen = false := by decide +kernel

def exGraph3 : Graph :=
  { n := 8, init := [0, 3, 5],
    adj := [[some 1, some 2], [some 3, none], [some 3, some 2], [some 0, some 4], [], [some 6, some 7], [some 7],
            [some 5, some 1]],
    bnd := [true, true, true, true, false, true, true, true] }

def exParams3 : Params Nat Nat Nat :=
  { M := exGraph3.toSys, props := [{ exp := .always, cond := fun _ => true }], key := id, cfg := {},
    finishMatches := fun d => d.length == 1 }

def exRun3 : FState Nat Nat × List Step × List Choice :=
  frun exParams3 3 (fsched exParams3 3 1000 0 (finit exParams3 3))

example : allExited exRun3.1 ∧ exRun3.1.c.stopped = false ∧ exRun3.1.c.early = false ∧
    exRun3.1.c.gen.length = 7 ∧ exRun3.1.c.done.length = 7 ∧ exRun3.1.m.isOpen = false := by decide +kernel

/-- a run in which a worker stops for `finish_when` while its colleague still holds jobs: the jobs are discarded, the
    machine is stopped, `early` is set -/
def exStopRun : FState Nat Nat × List Step × List Choice :=
  frun { C01.exParams with finishMatches := fun _ => true } 2
    [.pop 0, .take 0 1, .evalProp 0 false, .stop 1 .finish, .finishProps 0, .expand 0 true 2 false,
     .expand 0 true 3 false, .expand 0 true 4 false, .exit 0]

example : allExited exStopRun.1 ∧ exStopRun.1.c.stopped = true ∧ exStopRun.1.c.early = true ∧
    exStopRun.1.c.frontier.length = 0 ∧ exStopRun.1.c.active.length = 0 ∧ exStopRun.1.c.done.length = 1 := by
  decide +kernel

end SR.C05F
