import SR.Proofs.Checker.Bfs
import SR.Checker.Sched
import SR.Checker.Graph
/-!
# C13 — single-threaded BFS evaluates by depth and returns shortest witnesses

Property theorems only; invariant in `SR/Proofs/Checker/Bfs.lean`.  `FifoRun`: a run of the checker machine that
obeys the discipline of bfs.rs with one worker (pop only index 0 and only when idle, push at the other end, one
worker, no stale reads, stops only between jobs).  The BFS scheduler `runSingle P .bfs` is such a run
(`C13_scheduler_is_fifo`), and the real single-threaded `spawn_bfs` is compared with it byte for byte on every run.
Hypotheses: no `target_max_depth` (with a depth limit the order still holds but deeper states are cut off), and a
state identity that is injective on the reachable states.  "Distance" is expressed directly: a visited path is no
longer than any other in-boundary path from an initial state to the same state.
-/
namespace SR.C13
open SR SR.Checker

variable {σ κ α : Type} [DecidableEq κ] (P : Params σ κ α)

/-- **order**: the visited paths (oldest first) have non-decreasing lengths, and each is a shortest in-boundary
    path from an initial state to its last state — states are evaluated in non-decreasing distance. -/
theorem C13_order (hnd : P.cfg.maxDepth = none)
    (hinj : ∀ a b, P.M.Reach a → P.M.Reach b → P.key a = P.key b → a = b)
    (cs : List Choice) (hf : FifoRun P (init P.M P.props P.key) cs) :
    ((run P cs).visits.reverse.map List.length).Pairwise (· ≤ ·) ∧
    (∀ p ∈ (run P cs).visits, ∀ q, P.M.IsPath q → q.getLast? = p.getLast? → p.length ≤ q.length) := by
  have hb := binv_run (P := P) hnd hinj cs hf
  refine ⟨?_, hb.shortVis⟩
  rw [List.map_reverse, List.pairwise_reverse]
  exact hb.visSorted.imp (fun h => h)

/-- **shortest witnesses**: the path reported for an always- or sometimes-property has the minimum number of
    states (hence transitions) among all in-boundary paths from an initial state to a witnessing state. -/
theorem C13_shortest (hnd : P.cfg.maxDepth = none)
    (hinj : ∀ a b, P.M.Reach a → P.M.Reach b → P.key a = P.key b → a = b)
    (cs : List Choice) (hf : FifoRun P (init P.M P.props P.key) cs) :
    ∀ e ∈ (run P cs).disc, ∀ pr, P.props[e.1]? = some pr → pr.exp ≠ .eventually →
      ∀ q t, P.M.IsPath q → q.getLast? = some t → Wit pr t → e.2.length ≤ q.length :=
  (binv_run (P := P) hnd hinj cs hf).shortDisc

/-! ### the BFS scheduler obeys the discipline -/

theorem fifoRun_append (s : St σ κ) (cs ds : List Choice) :
    FifoRun P s (cs ++ ds) ↔ FifoRun P s cs ∧ FifoRun P (runFrom P s cs) ds := by
  induction cs generalizing s with
  | nil => simp [FifoRun, runFrom]
  | cons c cs ih =>
    simp only [List.cons_append, FifoRun, ih, runFrom, List.foldl_cons, and_assoc]

theorem fifoRun_dropJobs (s : St σ κ) (n : Nat) : FifoRun P s (List.replicate n (.dropJob 0)) := by
  induction n generalizing s with
  | zero => trivial
  | succ n ih => exact ⟨trivial, ih _⟩

theorem C13_scheduler_is_fifo (fuel : Nat) (s : St σ κ) (bl : Nat) :
    FifoRun P s (schedule P .bfs fuel s bl) := by
  induction fuel generalizing s bl with
  | zero => trivial
  | succ fuel ih =>
    unfold schedule
    cases hn : schedNext P .bfs s bl with
    | none => trivial
    | some r =>
      obtain ⟨cs, bl'⟩ := r
      simp only
      rw [fifoRun_append]
      refine ⟨?_, ih _ _⟩
      unfold schedNext at hn
      split at hn
      · rename_i a ha
        split at hn
        · split at hn
          · cases hn; exact ⟨⟨rfl, rfl⟩, trivial⟩
          · split at hn <;> (cases hn; exact ⟨rfl, trivial⟩)
        · cases hn; exact ⟨⟨rfl, by decide⟩, trivial⟩
        · cases hn; exact ⟨rfl, trivial⟩
      · rename_i hnone
        have hact : s.active = [] := by
          cases h : s.active with
          | nil => rfl
          | cons x xs => rw [h] at hnone; simp at hnone
        split at hn
        · cases hn
        · rename_i hst
          have hst' : s.stopped = false := by cases h : s.stopped <;> simp_all
          split at hn
          · split at hn
            · cases hn; exact ⟨hact, fifoRun_dropJobs P _ _⟩
            · split at hn
              · cases hn; exact ⟨hact, fifoRun_dropJobs P _ _⟩
              · split at hn
                · cases hn
                · cases hn; trivial
          · split at hn
            · cases hn; trivial
            · cases hn; exact ⟨⟨rfl, hact, hst'⟩, trivial⟩

/-- the theorems instantiated for the single-threaded BFS executable -/
theorem C13_bfs_single (hnd : P.cfg.maxDepth = none)
    (hinj : ∀ a b, P.M.Reach a → P.M.Reach b → P.key a = P.key b → a = b) (fuel : Nat) :
    (((runSingle P .bfs fuel).visits.reverse.map List.length).Pairwise (· ≤ ·)) ∧
    (∀ p ∈ (runSingle P .bfs fuel).visits, ∀ q, P.M.IsPath q → q.getLast? = p.getLast? → p.length ≤ q.length) ∧
    (∀ e ∈ (runSingle P .bfs fuel).disc, ∀ pr, P.props[e.1]? = some pr → pr.exp ≠ .eventually →
      ∀ q t, P.M.IsPath q → q.getLast? = some t → Wit pr t → e.2.length ≤ q.length) := by
  have hf := C13_scheduler_is_fifo P fuel (init P.M P.props P.key) blockSize
  have h1 := C13_order P hnd hinj _ hf
  exact ⟨h1.1, h1.2, C13_shortest P hnd hinj _ hf⟩

/-! ### Non-vacuity: a graph with a join reached by a long and a short path; BFS reports the short one. -/

def exGraph : Graph :=
  { n := 5, init := [0], adj := [[some 1, some 3], [some 2], [some 4], [some 4], []],
    bnd := [true, true, true, true, true] }
def exParams : Params Nat Nat Nat :=
  { M := exGraph.toSys, props := [{ exp := .sometimes, cond := fun s => s == 4 }, { exp := .always, cond := fun _ => true }],
    key := id, cfg := {}, finishMatches := fun d => d.length == 2 }
example : (runSingle exParams .bfs 300).disc = [(0, [0, 3, 4])] := by decide
example : (runSingle exParams .bfs 300).visits.reverse.map List.length = [1, 2, 2, 3, 3] := by decide

end SR.C13
