/-! # C13 — property theorems (stub: nothing stated yet) -/
namespace SR.C13
end SR.C13
