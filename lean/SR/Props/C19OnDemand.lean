import SR.Proofs.OnDemandOracle
import SR.Props.OracleAudit
/-!
# C19 — adequacy of the on-demand reference semantics `onDemandExpected` (`o-ondemand`) and of the count formula `wantS`
# (`o-disc`)                                                                                       (builder W-Z1)

`onDemandExpected M key reqs` (Drv/C19.lean) is the declarative reading of an on-demand session before `run_to_completion`:
it folds the requests over (pending, generated, evaluated).  The MODEL of the on-demand checker is the checker machine
(`SR/Checker/Machine.lean`).  A **session** of the machine (`Session P s reqs cs`, defined in Proofs/OnDemandOracle.lean) is a
choice list built from the requests: a request whose fingerprint is the key of no pending job contributes nothing; a request
that hits contributes `take i` for a pending job `i` with that key, followed by the worker's complete processing of that job
(`IsWork`: one `evalProp` per property with ANY staleness flags, `finishProps`, one `expand` per in-boundary successor with
ANY queue position plus the retiring one — or the `record` loop for a terminal state).

Hypotheses (those documented at `onDemandExpected`, and checked by the driver: `precondition:no-always-true-property`):
* `hk hka hall` — some `always` property holds in every reachable state (it is never discovered, so every evaluated job is
  expanded; without it the oracle is wrong: `C19_ondemand_needs_always_property`);
* `hmd` — no depth limit (a job at the limit would be dropped unvisited);
* for "EVERY session is the oracle" also `hinit`: two in-boundary initial states with the same key are the same state
  (an initial state may be LISTED several times: it is then pending once per occurrence, on both sides).  NO injectivity
  of the key on other states is needed (a colliding successor is simply not generated, by both sides).  Without `hinit`
  two different initial states with one key are both pending; the oracle takes the first in `init_states` order (as the
  code's `pending.iter().position`), the machine may take either: `C19_ondemand_needs_distinct_initial_keys`.
-/
namespace SR.C19OnDemand
open SR SR.Drv.C19 SR.Checker

/-- **Every session of the machine is judged right by the oracle.**  Serving the requests `reqs` in on-demand mode
    evaluates (shows to the visitor) exactly the states `onDemandExpected M key reqs`, in that order; moreover afterwards
    the worker is idle, the pending states are the oracle's pending list (as a multiset) and the generated keys are the keys
    of the oracle's generated list (in order). -/
theorem C19_ondemand_session_evaluates (P : Params Nat Nat Nat) {k : Nat} {pk : Prop' Nat}
    (hk : P.props[k]? = some pk) (hka : pk.exp = .always) (hall : ∀ t, P.M.Reach t → pk.cond t = true)
    (hmd : P.cfg.maxDepth = none) (hinit : ∀ a ∈ P.M.initB, ∀ b ∈ P.M.initB, P.key a = P.key b → a = b)
    (reqs : List Nat) (cs : List Choice) (hsess : Session P (init P.M P.props P.key) reqs cs) :
    evaluated (run P cs) = onDemandExpected P.M P.key reqs ∧
    (run P cs).active = [] ∧
    ((run P cs).frontier.map (·.st)).Perm (odRun P.M P.key reqs).1 ∧
    (run P cs).gen = (odRun P.M P.key reqs).2.1.map P.key := by
  have h := session_sim hk hka hall hmd hsess _ (sim_init P k) sinv_init ninv_init (finj_init hinit)
  rw [onDemandExpected_eq]
  exact ⟨h.ev, h.act, h.pend, h.gen⟩

/-- **Conversely, every list the oracle accepts is the evaluation order of a session** — with no hypothesis on the keys
    at all: `o-ondemand` answers `ok` only for `visited = onDemandExpected …`, and that list is what some session of the
    machine (same requests) shows to the visitor. -/
theorem C19_ondemand_oracle_is_session (P : Params Nat Nat Nat) {k : Nat} {pk : Prop' Nat}
    (hk : P.props[k]? = some pk) (hka : pk.exp = .always) (hall : ∀ t, P.M.Reach t → pk.cond t = true)
    (hmd : P.cfg.maxDepth = none) (reqs visited : List Nat) (hok : visited = onDemandExpected P.M P.key reqs) :
    ∃ cs, Session P (init P.M P.props P.key) reqs cs ∧ evaluated (run P cs) = visited := by
  obtain ⟨cs, hc, hsim⟩ := oracle_session hk hka hall hmd reqs _ _ (sim_init P k) sinv_init
  exact ⟨cs, hc, by rw [hok, onDemandExpected_eq]; exact hsim.ev⟩

/-- executable form: `serve` (first pending job with the key, nothing stale, children queued at the back) is a session,
    so under the hypotheses its evaluation order IS the oracle's list -/
theorem C19_ondemand_serve (P : Params Nat Nat Nat) {k : Nat} {pk : Prop' Nat}
    (hk : P.props[k]? = some pk) (hka : pk.exp = .always) (hall : ∀ t, P.M.Reach t → pk.cond t = true)
    (hmd : P.cfg.maxDepth = none) (hinit : ∀ a ∈ P.M.initB, ∀ b ∈ P.M.initB, P.key a = P.key b → a = b) (reqs : List Nat) :
    Session P (init P.M P.props P.key) reqs (serve P (init P.M P.props P.key) reqs) ∧
    evaluated (run P (serve P (init P.M P.props P.key) reqs)) = onDemandExpected P.M P.key reqs :=
  ⟨serve_session P reqs _,
   (C19_ondemand_session_evaluates P hk hka hall hmd hinit reqs _ (serve_session P reqs _)).1⟩

/-- the driver's guard implies `hall`: on a decoded graph every reachable state is a state number `< n`, so a condition
    true on `range n` is true on every reachable state -/
theorem C19_ondemand_guard (x : SExp) (g : LGraph) (h : graph? x = some g) (c : Nat → Bool)
    (hc : (List.range g.n).all c = true) : ∀ t, g.toSys.Reach t → c t = true := by
  intro t ht
  have hlt := (COracleAudit.C19_oracle_graph_wf x g h).2.1 t ht
  exact List.all_eq_true.1 hc t (List.mem_range.2 hlt)

/-! ### non-vacuity and necessity of the hypotheses -/

/-- the 5-state graph of `C01.exParams` (self-loop, join, cycle, ignored action, boundary, two initial states) -/
example : C01.exParams.props[0]? = some ⟨.always, fun _ => true⟩ ∧ C01.exParams.cfg.maxDepth = none ∧
    (∀ a ∈ C01.exParams.M.initB, ∀ b ∈ C01.exParams.M.initB, C01.exParams.key a = C01.exParams.key b → a = b) :=
  ⟨rfl, rfl, fun _ _ _ _ h => h⟩

example : onDemandExpected C01.exParams.M C01.exParams.key [0, 3, 9, 1, 2, 2, 4] = [0, 3, 1, 2] ∧
    evaluated (run C01.exParams (serve C01.exParams (init C01.exParams.M C01.exParams.props C01.exParams.key)
      [0, 3, 9, 1, 2, 2, 4])) = [0, 3, 1, 2] := by decide

/-- an initial state listed twice (and one reachable from another): `0` is pending twice -/
def dupInitP : Params Nat Nat Nat :=
  { M := (Graph.toSys { n := 3, init := [0, 0, 1], adj := [[some 1, some 2], [some 2], []], bnd := [true, true, true] }),
    props := [{ exp := .always, cond := fun _ => true }], key := id, cfg := {}, finishMatches := fun _ => false }

example : onDemandExpected dupInitP.M dupInitP.key [0, 2, 0, 0, 1, 1] = [0, 2, 0, 1] ∧
    evaluated (run dupInitP (serve dupInitP (init dupInitP.M dupInitP.props dupInitP.key) [0, 2, 0, 0, 1, 1]))
      = [0, 2, 0, 1] := by decide

/-- two initial states with the same key -/
def collideP : Params Nat Nat Nat :=
  { M := { init := [0, 1], acts := fun _ => [], next := fun _ _ => none, inB := fun _ => true },
    props := [{ exp := .always, cond := fun _ => true }], key := fun _ => 7, cfg := {}, finishMatches := fun _ => false }

/-- **`hinit` is needed** for `C19_ondemand_session_evaluates`: with two initial states of one key the machine has a
    session (it takes the job of state 1) that evaluates `[1]`, the oracle expects `[0]` (the first in `init_states`
    order, which is what the single-threaded code does).  All other hypotheses hold. -/
theorem C19_ondemand_needs_distinct_initial_keys :
    Session collideP (init collideP.M collideP.props collideP.key) [7] (Choice.take 0 :: workOf collideP 1 ++ []) ∧
    evaluated (run collideP (Choice.take 0 :: workOf collideP 1 ++ [])) = [1] ∧
    onDemandExpected collideP.M collideP.key [7] = [0] :=
  ⟨Session.hit 0 { st := 1, path := [1], ebits := [], depth := 1 } _ rfl rfl (isWork_workOf 1) (Session.nil _),
   by decide, by decide⟩

/-- a chain `0 → 1` checked WITHOUT properties -/
def noPropP : Params Nat Nat Nat :=
  { M := { init := [0], acts := fun s => if s = 0 then [0] else [], next := fun s _ => if s = 0 then some 1 else none,
           inB := fun _ => true },
    props := [], key := id, cfg := {}, finishMatches := fun _ => false }

/-- **the `always`-true property is needed**: without it the worker returns from its block without expanding (nothing to
    await), state 1 never becomes pending, and the session evaluates `[0]` where `onDemandExpected` says `[0, 1]`
    (the driver refuses such a case: `precondition:no-always-true-property`). -/
theorem C19_ondemand_needs_always_property :
    evaluated (run noPropP (serve noPropP (init noPropP.M noPropP.props noPropP.key) [0, 1])) = [0] ∧
    onDemandExpected noPropP.M noPropP.key [0, 1] = [0, 1] := by decide

/-! ## `state_count` of a complete run and the formula `wantS` of `o-disc` -/

/-- **`state_count` of a complete run, exactly** (any strategy, any number of threads; strengthens `C01_counts`): the
    initial states, plus the in-boundary successors of every initial state ONCE PER OCCURRENCE in `init_states`, plus the
    in-boundary successors of every other reachable state once. -/
theorem C19_state_count_complete {σ κ α : Type} [DecidableEq κ] (P : Params σ κ α)
    (hinj : ∀ a b, P.M.Reach a → P.M.Reach b → P.key a = P.key b → a = b)
    (cs : List Choice) (hq : Quiescent (run P cs)) (he : (run P cs).early = false) :
    ∃ extra : List σ, extra.Nodup ∧ (∀ t, t ∈ extra ↔ P.M.Reach t ∧ t ∉ P.M.initB) ∧
      (run P cs).stateCount = P.M.initB.length + (P.M.initB.map fun t => (P.M.succB t).length).sum
        + (extra.map fun t => (P.M.succB t).length).sum :=
  stateCount_complete hinj cs hq he

/-- **`wantS` is the machine's count**: for any duplicate-free enumeration `reach` of the reachable states (the driver
    passes `reachSet M g.n`), the formula of `o-disc` (the DRIVER's constant `SR.Drv.C19.wantS`) equals the
    `state_count` of every complete run; and the driver's `wantU reach` equals its `unique_state_count`. -/
theorem C19_oracle_wantS (P : Params Nat Nat Nat)
    (hinj : ∀ a b, P.M.Reach a → P.M.Reach b → P.key a = P.key b → a = b)
    (cs : List Choice) (hq : Quiescent (run P cs)) (he : (run P cs).early = false)
    (reach : List Nat) (hnd : reach.Nodup) (hreach : ∀ t, t ∈ reach ↔ P.M.Reach t) :
    (run P cs).stateCount = SR.Drv.C19.wantS P.M reach ∧ (run P cs).gen.length = SR.Drv.C19.wantU reach := by
  obtain ⟨extra, h1, h2, h3⟩ := stateCount_complete hinj cs hq he
  refine ⟨by rw [h3, wantS_eq P.M reach extra hnd hreach h1 h2], ?_⟩
  obtain ⟨_, hg, hgm⟩ := C01.C01_exact P hinj cs hq he
  have hnk : (reach.map P.key).Nodup := by
    have hpw : List.Pairwise (fun a b => a ≠ b) reach := hnd
    exact List.pairwise_map.2
      (hpw.imp_of_mem fun {a b} ha hb hne hk => hne (hinj a b ((hreach a).1 ha) ((hreach b).1 hb) hk))
  have hp : (run P cs).gen.Perm (reach.map P.key) := by
    rw [List.perm_ext_iff_of_nodup hg hnk]
    intro kk
    rw [hgm kk, List.mem_map]
    exact ⟨fun ⟨t, ht, hk⟩ => ⟨t, (hreach t).2 ht, hk⟩, fun ⟨t, ht, hk⟩ => ⟨t, (hreach t).1 ht, hk⟩⟩
  rw [SR.Drv.C19.wantU, hp.length_eq, List.length_map]

/-- … in particular on every graph `o-disc` judges, with the driver's own `reachSet g.toSys g.n` -/
theorem C19_oracle_wantS_graph (x : SExp) (g : LGraph) (hg : graph? x = some g) (P : Params Nat Nat Nat)
    (hM : P.M = g.toSys) (hinj : ∀ a b, P.M.Reach a → P.M.Reach b → P.key a = P.key b → a = b)
    (cs : List Choice) (hq : Quiescent (run P cs)) (he : (run P cs).early = false) :
    (run P cs).stateCount = SR.Drv.C19.wantS g.toSys (reachSet g.toSys g.n) ∧
    (run P cs).gen.length = SR.Drv.C19.wantU (reachSet g.toSys g.n) := by
  obtain ⟨_, _, hm, hnd⟩ := COracleAudit.C19_oracle_graph_wf x g hg
  have := C19_oracle_wantS P hinj cs hq he (reachSet g.toSys g.n) hnd (by rw [hM]; exact hm)
  rw [hM] at this; exact this

/-- non-vacuity: the BFS run of the 5-state graph is complete, and its count is the formula's -/
example : (runSingle C01.exParams .bfs 200).frontier.length = 0 ∧ (runSingle C01.exParams .bfs 200).active.length = 0 ∧
    (runSingle C01.exParams .bfs 200).early = false ∧
    (runSingle C01.exParams .bfs 200).stateCount = wantS C01.exParams.M [0, 3, 1, 2] := by decide

/-- `dupInitP` (initial state `0` listed twice): 3 + 2·2 + 1 = 8 -/
example : (runSingle dupInitP .dfs 200).frontier.length = 0 ∧ (runSingle dupInitP .dfs 200).active.length = 0 ∧
    (runSingle dupInitP .dfs 200).early = false ∧
    (runSingle dupInitP .dfs 200).stateCount = 8 ∧ wantS dupInitP.M [0, 1, 2] = 8 := by decide

end SR.C19OnDemand
