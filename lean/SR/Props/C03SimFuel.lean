import SR.Proofs.Checker.SimFuel
import SR.Drv.Chk
/-!
# C03, simulation model: the driver's fuel is sufficient; one worker of the event machine IS the single-worker model

Property theorems only; lemmas in `SR/Proofs/Checker/SimFuel.lean`, schedules in `SR/Checker/MSimSched.lean`.

**Part 1 (fuel).**  The driver commands `sim` / `sim-sym` (`SR/Drv/Chk.lean`) run
`Sim.runTraces P (g.n + 3) (ans.length + 20) ans {}` with `P := Case.params c` resp. `{ c.params with key := rep… }`.
"The fuel ran out" is made explicit by `Sim.loopDone` / `Sim.traceDone` / `Sim.runDone` (same control flow as
`Sim.traceLoop` / `trace` / `runTraces`; `false` exactly on the branch `traceLoop 0 … = (g, ans)`).  On a well-formed graph
`g.n + 1` iterations per trace are enough — for EVERY key function (so also for the representatives of `sim-sym`), property
list, run control, answer list, oracle and starting `G` — and any larger fuel yields the very same result; `g.n + 1` is
tight (`C03_sim_fuel_tight`).  The number of traces `ans.length + 20` is NOT always enough to reach a stop condition
(`C03_sim_trace_budget_not_always_enough`); what is true: a run that did end in a stop condition is independent of the
budget (`C03_sim_trace_budget_stable`), and `target_state_count` traces are enough when every trace counts a state
(`C03_sim_trace_budget_target`; the harness generates exactly such cases: all initial states inside the boundary, depth
limit ≥ 1, target ≤ 11 < 20).

**Part 2 (refinement).**  For ONE worker (`k = 1`) and a step list without `timeout` / `panic` / `cut`, the event machine
`MSim` driven by the steps that the chooser's answers induce (`MSim.stepsOfTrace`, `MSim.stepsOfRun`: executable) accepts
every step (`MSim.runStrict … ≠ none`: nothing is skipped) and ends with the `disc` and `stateCount` of `Sim.trace` /
`Sim.runTraces` — full equality, for one trace with any fuel and any model, and for the whole worker loop when there is an
initial state and no trace runs out of fuel (in particular for the driver's call on a well-formed graph).
-/
namespace SR.C03
open SR SR.Checker SR.Drv.Chk

/-! ## Part 1: fuel -/

section
variable {κ : Type} [DecidableEq κ] (P : Params Nat κ Nat)

/-- **`traceLoop_fuel_stable`.**  On a well-formed graph, started in a configuration a trace can be in (`path`: states
    `< g.n` with pairwise distinct keys, `gen`: their keys, `st < g.n`), the loop returns by itself within
    `g.n + 1 - path.length` iterations: `loopDone` holds, and every larger fuel yields the same result. -/
theorem C03_sim_loop_fuel_stable {g : Graph} (hwf : g.WF) (hM : P.M = g.toSys) (orc : Nat → Nat → Bool)
    (st : Nat) (path : List Nat) (gen : List κ) (eb ans : List Nat) (G₀ : Sim.G Nat)
    (hst : st < g.n) (hlt : ∀ s ∈ path, s < g.n) (hpw : path.Pairwise (fun a b => P.key a ≠ P.key b))
    (hgen : ∀ k, k ∈ gen ↔ ∃ t ∈ path, P.key t = k)
    (f : Nat) (hf : g.n + 1 ≤ f + path.length) :
    Sim.loopDone P orc f st path gen eb ans G₀.disc = true ∧
    ∀ f', f ≤ f' → Sim.traceLoop P orc f' st path gen eb ans G₀ = Sim.traceLoop P orc f st path gen eb ans G₀ := by
  have h := Sim.loopDone_of_graph hwf hM orc f st path gen eb ans G₀.disc hst hlt hpw hgen hf
  exact ⟨h, fun f' hf' => (Sim.traceLoop_stable orc f st path gen eb ans G₀ h f' hf').1⟩

/-- **The fuel of a trace is sufficient** (any key function): with fuel `≥ g.n + 1` the loop of the trace never returns
    because the fuel ran out (`traceDone`), and all such fuels give the same trace. -/
theorem C03_sim_fuel_sufficient_key {g : Graph} (hwf : g.WF) (hM : P.M = g.toSys) (ans : List Nat) (G₀ : Sim.G Nat)
    (orc : Nat → Nat → Bool) (f f' : Nat) (hf : g.n + 1 ≤ f) (hf' : g.n + 1 ≤ f') :
    Sim.traceDone P f ans G₀ orc = true ∧ Sim.trace P f ans G₀ orc = Sim.trace P f' ans G₀ orc := by
  have h1 := Sim.traceDone_of_graph hwf hM (g.n + 1) (Nat.le_refl _) ans G₀ orc
  have a := Sim.trace_stable (g.n + 1) ans G₀ orc h1 f hf
  have b := Sim.trace_stable (g.n + 1) ans G₀ orc h1 f' hf'
  exact ⟨a.2, a.1.trans b.1.symm⟩

/-- the same for the whole worker loop: no trace of `runTraces` runs out of fuel, all fuels `≥ g.n + 1` give the same run -/
theorem C03_sim_run_fuel_sufficient_key {g : Graph} (hwf : g.WF) (hM : P.M = g.toSys) (n : Nat) (ans : List Nat)
    (G₀ : Sim.G Nat) (f f' : Nat) (hf : g.n + 1 ≤ f) (hf' : g.n + 1 ≤ f') :
    Sim.runDone P f n ans G₀ = true ∧ Sim.runTraces P f n ans G₀ = Sim.runTraces P f' n ans G₀ := by
  have h1 := Sim.runDone_of_graph hwf hM (g.n + 1) (Nat.le_refl _) n ans G₀
  have a := Sim.runTraces_fuel_stable (g.n + 1) n ans G₀ h1 f hf
  have b := Sim.runTraces_fuel_stable (g.n + 1) n ans G₀ h1 f' hf'
  exact ⟨a.2, a.1.trans b.1.symm⟩

end

/-- **`C03_sim_fuel_sufficient`: the driver's `sim` command.**  With `P := Case.params c` on a well-formed graph the
    fuel `g.n + 3` is sufficient: the loop of every trace returns by itself, and
    `trace P (g.n + 3) ans g = trace P f ans g` for every `f ≥ g.n + 3` (indeed for every `f ≥ g.n + 1`). -/
theorem C03_sim_fuel_sufficient (c : Case) (hwf : c.g.WF) (ans : List Nat) (G₀ : Sim.G Nat) (orc : Nat → Nat → Bool) :
    Sim.traceDone c.params (c.g.n + 3) ans G₀ orc = true ∧
    ∀ f, c.g.n + 1 ≤ f → Sim.trace c.params (c.g.n + 3) ans G₀ orc = Sim.trace c.params f ans G₀ orc :=
  ⟨(C03_sim_fuel_sufficient_key c.params hwf rfl ans G₀ orc (c.g.n + 3) (c.g.n + 3) (by omega) (by omega)).1,
   fun f hf => (C03_sim_fuel_sufficient_key c.params hwf rfl ans G₀ orc (c.g.n + 3) f (by omega) hf).2⟩

/-- the driver's run `Sim.runTraces c.params (g.n + 3) (ans.length + 20) ans {}`: no trace runs out of fuel, and the run is
    the same for every fuel `f ≥ g.n + 1` (and every trace budget `n`) -/
theorem C03_sim_run_fuel_sufficient (c : Case) (hwf : c.g.WF) (n : Nat) (ans : List Nat) (G₀ : Sim.G Nat) :
    Sim.runDone c.params (c.g.n + 3) n ans G₀ = true ∧
    ∀ f, c.g.n + 1 ≤ f → Sim.runTraces c.params (c.g.n + 3) n ans G₀ = Sim.runTraces c.params f n ans G₀ :=
  ⟨(C03_sim_run_fuel_sufficient_key c.params hwf rfl n ans G₀ (c.g.n + 3) (c.g.n + 3) (by omega) (by omega)).1,
   fun f hf => (C03_sim_run_fuel_sufficient_key c.params hwf rfl n ans G₀ (c.g.n + 3) f (by omega) hf).2⟩

/-- **the driver's `sim-sym` command** (`key := fun s => rep.getD s s`, any table `rep`): the same -/
theorem C03_sim_sym_fuel_sufficient (c : Case) (hwf : c.g.WF) (rep : List Nat) (n : Nat) (ans : List Nat)
    (G₀ : Sim.G Nat) :
    Sim.runDone { c.params with key := fun s => rep.getD s s } (c.g.n + 3) n ans G₀ = true ∧
    ∀ f, c.g.n + 1 ≤ f →
      Sim.runTraces { c.params with key := fun s => rep.getD s s } (c.g.n + 3) n ans G₀ =
      Sim.runTraces { c.params with key := fun s => rep.getD s s } f n ans G₀ :=
  ⟨(C03_sim_run_fuel_sufficient_key _ hwf rfl n ans G₀ (c.g.n + 3) (c.g.n + 3) (by omega) (by omega)).1,
   fun f hf => (C03_sim_run_fuel_sufficient_key _ hwf rfl n ans G₀ (c.g.n + 3) f (by omega) hf).2⟩

/-! ### the number of traces -/

section
variable {σ κ α : Type} [DecidableEq κ] (P : Params σ κ α)

/-- **A run that ended in a stop condition does not depend on the trace budget**: if after `n ≥ 1` traces
    `finish_when` matches or the target state count is reached (`Sim.stops`), every larger budget gives the same result. -/
theorem C03_sim_trace_budget_stable (f n : Nat) (ans : List Nat) (g : Sim.G σ) (hn : 1 ≤ n)
    (hs : Sim.stops P (Sim.runTraces P f n ans g) = true) :
    ∀ n', n ≤ n' → Sim.runTraces P f n' ans g = Sim.runTraces P f n ans g :=
  Sim.runTraces_stable f n ans g hn hs

/-- **`target_state_count` traces are enough when every trace counts a state** (there is an initial state, all initial
    states are inside the boundary, the depth limit is not 0 — what the harness generates): with a target `t ≤ n` the run
    ends in a stop condition and is the same for every larger budget. -/
theorem C03_sim_trace_budget_target (hinit : P.M.init ≠ []) (hinB : ∀ s ∈ P.M.init, P.M.inB s = true)
    (hdepth : P.cfg.maxDepth ≠ some 0) {t : Nat} (ht : P.cfg.target = some t) (f n : Nat) (hf : 1 ≤ f) (hn : 1 ≤ n)
    (htn : t ≤ n) (ans : List Nat) (g : Sim.G σ) :
    Sim.stops P (Sim.runTraces P f n ans g) = true ∧
    ∀ n', n ≤ n' → Sim.runTraces P f n' ans g = Sim.runTraces P f n ans g := by
  obtain ⟨f, rfl⟩ : ∃ k, f = k + 1 := ⟨f - 1, by omega⟩
  exact Sim.runTraces_target ⟨hinit, hinB, hdepth⟩ ht f n hn htn ans g

end

/-- the driver's budget `ans.length + 20` is enough for the cases the harness generates (target `≤ ans.length + 20`) -/
theorem C03_sim_driver_budget_target (c : Case) (hinit : c.g.init ≠ [])
    (hinB : ∀ s ∈ c.g.init, c.g.bnd.getD s false = true) (hdepth : c.cfg.maxDepth ≠ some 0) {t : Nat}
    (ht : c.cfg.target = some t) (ans : List Nat) (htn : t ≤ ans.length + 20) :
    Sim.stops c.params (Sim.runTraces c.params (c.g.n + 3) (ans.length + 20) ans {}) = true ∧
    ∀ n', ans.length + 20 ≤ n' →
      Sim.runTraces c.params (c.g.n + 3) n' ans {} = Sim.runTraces c.params (c.g.n + 3) (ans.length + 20) ans {} :=
  C03_sim_trace_budget_target c.params hinit hinB hdepth ht _ _ (by omega) (by omega) htn ans {}

/-! ### witnesses: the fuel bound is tight, the trace budget is not always enough -/

/-- the cycle `0 → 1 → 0`, `eventually (s = 5)` (never holds): the trace `0, 1, 0` closes the cycle in its third iteration -/
def cycCase : Case :=
  { g := { n := 2, init := [0], adj := [[some 1], [some 0]], bnd := [true, true] },
    props := [{ exp := .eventually, tbl := [false, false] }], cfg := { target := some 4 }, finish := .any }

/-- **`g.n + 1` is tight**: on a well-formed graph with `n = 2` states, fuel `n` runs out (the "loop found" iteration is
    never reached, nothing is recorded), fuel `n + 1` does not. -/
theorem C03_sim_fuel_tight :
    cycCase.g.WF ∧
    Sim.traceDone cycCase.params 2 [] {} = false ∧ (Sim.trace cycCase.params 2 [] {}).1.disc = [] ∧
    Sim.traceDone cycCase.params 3 [] {} = true ∧ (Sim.trace cycCase.params 3 [] {}).1.disc = [(0, [0, 1, 0])] := by
  decide

/-- one state, no property, `target_state_count = 25`, finish condition `any`: every trace counts one state -/
def budgetCase : Case :=
  { g := { n := 1, init := [0], adj := [[]], bnd := [true] }, props := [], cfg := { target := some 25 }, finish := .any }

/-- **The trace budget `ans.length + 20` is NOT always enough**: with the empty answer list the driver's run ends after 20
    traces with `state_count = 20` in no stop condition (the real worker goes on), 25 traces reach the target, and the two
    results differ. -/
theorem C03_sim_trace_budget_not_always_enough :
    budgetCase.g.WF ∧
    Sim.stops budgetCase.params (Sim.runTraces budgetCase.params (budgetCase.g.n + 3) (([] : List Nat).length + 20) [] {}) = false ∧
    (Sim.runTraces budgetCase.params (budgetCase.g.n + 3) (([] : List Nat).length + 20) [] {}).stateCount = 20 ∧
    Sim.stops budgetCase.params (Sim.runTraces budgetCase.params (budgetCase.g.n + 3) 25 [] {}) = true ∧
    (Sim.runTraces budgetCase.params (budgetCase.g.n + 3) 25 [] {}).stateCount = 25 := by
  decide

/-! ## Part 2: one worker of the event machine without cuts is the single-worker model -/

section
variable {σ κ α : Type} [DecidableEq σ] [DecidableEq κ] (P : Params σ κ α)

/-- **One trace, from any shared state.**  A worker at the top of its loop, shared map `g.disc`, shared count
    `g.stateCount`: the machine accepts EVERY step of the induced list (`runStrict`, nothing skipped) and ends with the
    `disc` and `stateCount` of `Sim.trace` — any model, any fuel, any answers. -/
theorem C03_msim_refines_trace_from (fuel : Nat) (ans : List Nat) (g : Sim.G σ) :
    ∃ s', MSim.runStrict P { disc := g.disc, stateCount := g.stateCount, shutdown := false, ws := [.idle] }
            (MSim.stepsOfTrace P 0 fuel ans g.disc) = some s' ∧
      s'.disc = (Sim.trace P fuel ans g).1.disc ∧ s'.stateCount = (Sim.trace P fuel ans g).1.stateCount ∧
      (P.M.init ≠ [] → Sim.traceDone P fuel ans g = true → s'.ws = [.ended]) := by
  obtain ⟨x, h1, h2⟩ := MSim.trace_run (P := P) fuel ans g
  exact ⟨_, h1, rfl, rfl, fun hi hd => by rw [h2 hi hd]; rfl⟩

/-- **`(MSim.run P 1 (stepsOfTrace …)).disc = (Sim.trace P fuel ans {}).1.disc`, the same for `stateCount`**, and no step
    of the list is skipped. -/
theorem C03_msim_refines_trace (fuel : Nat) (ans : List Nat) :
    (MSim.run P 1 (MSim.stepsOfTrace P 0 fuel ans [])).disc = (Sim.trace P fuel ans {}).1.disc ∧
    (MSim.run P 1 (MSim.stepsOfTrace P 0 fuel ans [])).stateCount = (Sim.trace P fuel ans {}).1.stateCount ∧
    (MSim.runStrict P (MSim.init 1) (MSim.stepsOfTrace P 0 fuel ans [])).isSome = true := by
  obtain ⟨s', h, hd, hc, _⟩ := C03_msim_refines_trace_from P fuel ans {}
  have h' : MSim.runStrict P (MSim.init 1) (MSim.stepsOfTrace P 0 fuel ans []) = some s' := h
  have hr : MSim.run P 1 (MSim.stepsOfTrace P 0 fuel ans []) = s' := MSim.runFrom_of_runStrict h'
  rw [hr, h']
  exact ⟨hd, hc, rfl⟩

/-- **The whole worker loop.**  If there is an initial state and no trace runs out of fuel (`Sim.runDone`), the machine
    accepts every step of `stepsOfRun` (traces, `cont`, `leave finish` / `leave target`) and ends with the `disc` and
    `stateCount` of `Sim.runTraces`; the worker has left or (trace budget used up) is back at the top of its loop. -/
theorem C03_msim_refines_run (hinit : P.M.init ≠ []) (fuel n : Nat) (ans : List Nat)
    (hdone : Sim.runDone P fuel n ans {} = true) :
    (MSim.run P 1 (MSim.stepsOfRun P 0 fuel n ans {})).disc = (Sim.runTraces P fuel n ans {}).disc ∧
    (MSim.run P 1 (MSim.stepsOfRun P 0 fuel n ans {})).stateCount = (Sim.runTraces P fuel n ans {}).stateCount ∧
    (MSim.runStrict P (MSim.init 1) (MSim.stepsOfRun P 0 fuel n ans {})).isSome = true ∧
    ((MSim.run P 1 (MSim.stepsOfRun P 0 fuel n ans {})).ws = [.left] ∨
     (MSim.run P 1 (MSim.stepsOfRun P 0 fuel n ans {})).ws = [.idle]) := by
  obtain ⟨x, h, hx⟩ := MSim.run_run (P := P) hinit fuel n ans {} hdone
  have h' : MSim.runStrict P (MSim.init 1) (MSim.stepsOfRun P 0 fuel n ans {}) = some _ := h
  have hr := MSim.runFrom_of_runStrict h'
  unfold MSim.run
  rw [hr, h']
  refine ⟨rfl, rfl, rfl, ?_⟩
  rcases hx with rfl | rfl
  · exact Or.inl rfl
  · exact Or.inr rfl

end

/-- **The driver's `sim` / `sim-sym` run is a run of the event machine**: on a well-formed graph with an initial state,
    for any key function, the one-worker machine driven by the induced steps accepts all of them and ends with the `disc`
    and `stateCount` the driver reports. -/
theorem C03_msim_refines_run_graph (P : Params Nat Nat Nat) {g : Graph} (hwf : g.WF) (hM : P.M = g.toSys)
    (hinit : g.init ≠ []) (n : Nat) (ans : List Nat) :
    (MSim.run P 1 (MSim.stepsOfRun P 0 (g.n + 3) n ans {})).disc = (Sim.runTraces P (g.n + 3) n ans {}).disc ∧
    (MSim.run P 1 (MSim.stepsOfRun P 0 (g.n + 3) n ans {})).stateCount = (Sim.runTraces P (g.n + 3) n ans {}).stateCount ∧
    (MSim.runStrict P (MSim.init 1) (MSim.stepsOfRun P 0 (g.n + 3) n ans {})).isSome = true := by
  have hi : P.M.init ≠ [] := by rw [hM]; exact hinit
  have hd := Sim.runDone_of_graph hwf hM (g.n + 3) (by omega) n ans {}
  obtain ⟨a, b, c, _⟩ := C03_msim_refines_run P hi (g.n + 3) n ans hd
  exact ⟨a, b, c⟩

/-! ### Non-vacuity

`0 → {1, 2}`, `1 → 0`, `2` terminal; `eventually (s = 2)`, `always (s ≠ 2)`.  Trace 1 (answers `0, 0, 0`): `0, 1, 0` closes
a cycle, the eventually counterexample `[0, 1, 0]` is recorded.  Trace 2 (answers `0, 1`): `0, 2` violates the always
property (`[0, 2]`); `finish_when = all failures` matches and the worker leaves. -/

def exCase : Case :=
  { g := { n := 3, init := [0], adj := [[some 1, some 2], [some 0], []], bnd := [true, true, true] },
    props := [{ exp := .eventually, tbl := [false, false, true] }, { exp := .always, tbl := [true, true, false] }],
    cfg := { target := some 30 }, finish := .allOf [0, 1] }

example : exCase.g.WF := by decide
example : exCase.params.M.init ≠ [] := by decide

example : (Sim.runTraces exCase.params (exCase.g.n + 3) 25 [0, 0, 0, 0, 1] {}).disc = [(1, [0, 2]), (0, [0, 1, 0])] ∧
    (Sim.runTraces exCase.params (exCase.g.n + 3) 25 [0, 0, 0, 0, 1] {}).stateCount = 4 ∧
    Sim.runDone exCase.params (exCase.g.n + 3) 25 [0, 0, 0, 0, 1] {} = true ∧
    Sim.stops exCase.params (Sim.runTraces exCase.params (exCase.g.n + 3) 25 [0, 0, 0, 0, 1] {}) = true := by decide

/-- the induced step list of that run -/
example : MSim.stepsOfRun exCase.params 0 (exCase.g.n + 3) 25 [0, 0, 0, 0, 1] {} =
    [.start 0 0, .enter 0, .evalProp 0 0, .applyProp 0 0, .evalProp 0 1, .applyProp 0 1, .finishProps 0,
     .advance 0 (some 1), .enter 0, .evalProp 0 0, .applyProp 0 0, .evalProp 0 1, .applyProp 0 1, .finishProps 0,
     .advance 0 (some 0), .enter 0, .recordOne 0 0, .recordOne 0 1, .endTrace 0, .cont 0,
     .start 0 0, .enter 0, .evalProp 0 0, .evalProp 0 1, .applyProp 0 1, .finishProps 0,
     .advance 0 (some 2), .enter 0, .evalProp 0 0, .evalProp 0 1, .applyProp 0 1, .finishProps 0,
     .leave 0 .finish] := by decide

/-- … and the machine, run on it directly: same discoveries, same count, the worker has left -/
example : (MSim.run exCase.params 1 (MSim.stepsOfRun exCase.params 0 (exCase.g.n + 3) 25 [0, 0, 0, 0, 1] {})).disc =
      [(1, [0, 2]), (0, [0, 1, 0])] ∧
    (MSim.run exCase.params 1 (MSim.stepsOfRun exCase.params 0 (exCase.g.n + 3) 25 [0, 0, 0, 0, 1] {})).stateCount = 4 ∧
    MSim.allLeft (MSim.run exCase.params 1 (MSim.stepsOfRun exCase.params 0 (exCase.g.n + 3) 25 [0, 0, 0, 0, 1] {})) = true :=
  by decide

/-- the hypotheses of `C03_sim_driver_budget_target` hold of a concrete case (target 4 ≤ 0 + 20) -/
example : cycCase.g.init ≠ [] ∧ (∀ s ∈ cycCase.g.init, cycCase.g.bnd.getD s false = true) ∧
    cycCase.cfg.maxDepth ≠ some 0 ∧ cycCase.cfg.target = some 4 := by decide

/-- a trace that runs out of fuel: the machine is then in the middle of the trace (still the same `disc`, `stateCount`) -/
example : (MSim.run cycCase.params 1 (MSim.stepsOfTrace cycCase.params 0 2 [] [])).stateCount = 2 ∧
    (Sim.trace cycCase.params 2 [] {}).1.stateCount = 2 ∧
    MSim.allLeft (MSim.run cycCase.params 1 (MSim.stepsOfTrace cycCase.params 0 2 [] [])) = false := by decide

end SR.C03
