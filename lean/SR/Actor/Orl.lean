/-
The ordered reliable link, `src/actor/ordered_reliable_link.rs` (tree with the F8 repair: per-destination
sequencers, in-order acceptance `seq == last_delivered[src] + 1`, ignored messages still advance the
sequencer and are ack'ed).

Two layers.

* Handlers (`onStart`, `onMsg`, `onTimeout`, `processOutput`): a transcription of `ActorWrapper`'s `Actor`
  impl.  The wrapped actor is an ARBITRARY pair of functions (`Wrapped`); `none` as new wrapped state is
  `Cow::Borrowed` (state untouched); `WCmd.unsupported` stands for `SetTimer`/`CancelTimer`/`ChooseRandom`
  emitted by the wrapped actor, which are `todo!()` in the source (result `none` = panic).
  `StateWrapper`'s three hash maps are association lists; `handed` and `sent` are GHOST logs (every call of
  the wrapped `on_msg`, every `Send` the wrapped actor emitted) that the code does not have.
* The protocol machine (`step`, `run`): nodes + a network that is a multiset of envelopes subject to loss
  (`drop`), duplication (`dup`) and arbitrary reordering (`deliver` takes any in-flight packet), plus the
  resend timer.  All theorems of C16 are about every `run` of this machine.
  `implNext` expresses what `ActorModel::next_state` does for each of the three `Network` kinds as a short
  sequence of machine steps; this is what the correspondence check compares with the real crate.

Core Lean only (linked into the driver).
-/
namespace SR.Orl

abbrev Id := Nat

/-! ## association lists standing for the `HashableHashMap`s of `StateWrapper` -/

/-- `*map.get(&k).unwrap_or(&d)` -/
def getD {κ : Type} [DecidableEq κ] : List (κ × Nat) → κ → Nat → Nat
  | [], _, d => d
  | (k', v) :: r, k, d => if k' = k then v else getD r k d

/-- `map.insert(k, v)` (overwrites) -/
def put {κ ν : Type} [DecidableEq κ] (m : List (κ × ν)) (k : κ) (v : ν) : List (κ × ν) :=
  (k, v) :: m.filter (fun e => decide (e.1 ≠ k))

/-- `map.remove(&k)` -/
def del {κ ν : Type} [DecidableEq κ] (m : List (κ × ν)) (k : κ) : List (κ × ν) :=
  m.filter (fun e => decide (e.1 ≠ k))

/-! ## messages, commands, the wrapped actor -/

/-- `MsgWrapper<Msg>` -/
inductive Env (μ : Type) where
  | deliver (seq : Nat) (m : μ)
  | ack (seq : Nat)
deriving DecidableEq, Repr

/-- `Envelope<MsgWrapper<Msg>>` -/
structure Packet (μ : Type) where
  src : Id
  dst : Id
  env : Env μ
deriving DecidableEq, Repr

/-- a command of the WRAPPED actor: `Send`, or one of the three the link does not support (`todo!()`) -/
inductive WCmd (μ : Type) where
  | send (dst : Id) (m : μ)
  | unsupported
deriving DecidableEq, Repr

/-- a command of the wrapper: `SetTimer(TimerWrapper::Network, _)` or `Send(dst, MsgWrapper)` -/
inductive OCmd (μ : Type) where
  | setTimer
  | send (dst : Id) (e : Env μ)
deriving DecidableEq, Repr

/-- the wrapped actor: arbitrary. `onMsg id state src msg = (none, cmds)` means the state was left
borrowed; `(none, [])` is the "ignored message" no-op. -/
structure Wrapped (μ σ : Type) where
  onStart : Id → σ × List (WCmd μ)
  onMsg : Id → σ → Id → μ → Option σ × List (WCmd μ)

/-- `StateWrapper` + ghost logs -/
structure Node (μ σ : Type) where
  nextSeq : List (Id × Nat)            -- next_send_seqs
  pending : List ((Id × Nat) × μ)      -- msgs_pending_ack
  lastDel : List (Id × Nat)            -- last_delivered_seqs
  wrapped : σ                          -- wrapped_state
  handed : List (Id × Nat × μ)         -- ghost: (src, seq, msg) for every call of the wrapped on_msg
  sent : List (Id × μ)                 -- ghost: (dst, msg) for every Send emitted by the wrapped actor

variable {μ σ : Type}

/-- ghost: messages the wrapped actor of `nd` sent to `d`, in order -/
def sentTo (nd : Node μ σ) (d : Id) : List μ :=
  (nd.sent.filter (fun e => decide (e.1 = d))).map (·.2)

/-- ghost: (seq, msg) handed to the wrapped actor of `nd` from source `s`, in order -/
def handedFrom (nd : Node μ σ) (s : Id) : List (Nat × μ) :=
  (nd.handed.filter (fun e => decide (e.1 = s))).map (·.2)

def msgsFrom (nd : Node μ σ) (s : Id) : List μ := (handedFrom nd s).map (·.2)
def seqsFrom (nd : Node μ σ) (s : Id) : List Nat := (handedFrom nd s).map (·.1)

/-- one `Command::Send(dst, m)` of the wrapped actor: take the destination's next sequencer (1 if none yet),
remember the message until it is ack'ed -/
def sendOne [DecidableEq μ] (nd : Node μ σ) (dst : Id) (m : μ) : Node μ σ :=
  { nd with nextSeq := put nd.nextSeq dst (getD nd.nextSeq dst 1 + 1),
            pending := put nd.pending (dst, getD nd.nextSeq dst 1) m,
            sent := nd.sent ++ [(dst, m)] }

/-- `process_output`: one sequencer per destination. `none` = `todo!()` panic. -/
def processOutput [DecidableEq μ] (nd : Node μ σ) : List (WCmd μ) → Option (Node μ σ × List (OCmd μ))
  | [] => some (nd, [])
  | .unsupported :: _ => none
  | .send dst m :: rest =>
    match processOutput (sendOne nd dst m) rest with
    | none => none
    | some (nd'', out) => some (nd'', OCmd.send dst (Env.deliver (getD nd.nextSeq dst 1) m) :: out)

/-- the state before `on_start` ran (all maps empty) -/
def blank (W : Wrapped μ σ) (i : Id) : Node μ σ :=
  { nextSeq := [], pending := [], lastDel := [], wrapped := (W.onStart i).1, handed := [], sent := [] }

/-- `on_start` -/
def onStart [DecidableEq μ] (W : Wrapped μ σ) (i : Id) : Option (Node μ σ × List (OCmd μ)) :=
  match processOutput (blank W i) (W.onStart i).2 with
  | none => none
  | some (nd, out) => some (nd, OCmd.setTimer :: out)

/-- `on_msg`. Outer `none` = panic; inner `none` = `Cow::Borrowed` (state untouched). -/
def onMsg [DecidableEq μ] (W : Wrapped μ σ) (id : Id) (nd : Node μ σ) (src : Id) :
    Env μ → Option (Option (Node μ σ) × List (OCmd μ))
  | .deliver seq m =>
    let last := getD nd.lastDel src 0
    if seq > last + 1 then some (none, [])                        -- overtook an earlier one: not handed, not ack'ed
    else if seq ≤ last then some (none, [OCmd.send src (Env.ack seq)]) -- duplicate: ack again
    else
      let r := W.onMsg id nd.wrapped src m
      let nd1 : Node μ σ := match r.1 with
        | some w => { nd with wrapped := w }
        | none => nd
      let nd2 : Node μ σ :=
        { nd1 with lastDel := put nd1.lastDel src seq, handed := nd1.handed ++ [(src, seq, m)] }
      match processOutput nd2 r.2 with
      | none => none
      | some (nd3, out) => some (some nd3, OCmd.send src (Env.ack seq) :: out)
  | .ack seq => some (some { nd with pending := del nd.pending (src, seq) }, [])

/-- `on_timeout(TimerWrapper::Network)`: state untouched, renew the timer, resend everything pending.
(`TimerWrapper::User` cannot occur: the wrapped actor cannot set timers.) -/
def onTimeout (nd : Node μ σ) : List (OCmd μ) :=
  OCmd.setTimer :: nd.pending.map (fun e => OCmd.send e.1.1 (Env.deliver e.1.2 e.2))

/-- `is_no_op` -/
def isNoOp (r : Option (Node μ σ) × List (OCmd μ)) : Bool := r.1.isNone && r.2.isEmpty

/-- `is_no_op_with_timer` for the network timer -/
def isNoOpWithTimer (out : List (OCmd μ)) : Bool :=
  match out with
  | [OCmd.setTimer] => true
  | _ => false

/-- the packets a command list puts on the network -/
def sends (src : Id) : List (OCmd μ) → List (Packet μ)
  | [] => []
  | .setTimer :: r => sends src r
  | .send d e :: r => ⟨src, d, e⟩ :: sends src r

/-! ## the protocol machine -/

structure World (μ σ : Type) where
  nodes : Id → Node μ σ
  net : List (Packet μ)      -- a multiset; order is irrelevant to every step

def upd {α : Type} (f : Id → α) (i : Id) (v : α) : Id → α := fun j => if j = i then v else f j

inductive Label (μ : Type) where
  | deliver (p : Packet μ)   -- any in-flight packet (reordering); it is consumed
  | drop (p : Packet μ)      -- loss
  | dup (p : Packet μ)       -- duplication
  | timeout (i : Id)         -- resend timer of node i
deriving DecidableEq, Repr

/-- all `n` actors have started (what `ActorModel::init_states` does); `none` if an `on_start` panics -/
def init [DecidableEq μ] (W : Wrapped μ σ) (n : Nat) : Option (World μ σ) :=
  if (List.range n).all (fun i => (onStart W i).isSome) then
    some { nodes := fun i => if i < n then ((onStart W i).getD (blank W i, [])).1 else blank W i,
           net := (List.range n).flatMap (fun i => sends i ((onStart W i).getD (blank W i, [])).2) }
  else none

def step [DecidableEq μ] (W : Wrapped μ σ) (n : Nat) (st : World μ σ) : Label μ → Option (World μ σ)
  | .drop p => if p ∈ st.net then some { st with net := st.net.erase p } else none
  | .dup p => if p ∈ st.net then some { st with net := st.net ++ [p] } else none
  | .timeout i =>
    if i < n then some { st with net := st.net ++ sends i (onTimeout (st.nodes i)) } else none
  | .deliver p =>
    if p ∈ st.net ∧ p.dst < n then
      match onMsg W p.dst (st.nodes p.dst) p.src p.env with
      | none => none
      | some r =>
        some { nodes := upd st.nodes p.dst (r.1.getD (st.nodes p.dst)),
               net := st.net.erase p ++ sends p.dst r.2 }
    else none

def run [DecidableEq μ] (W : Wrapped μ σ) (n : Nat) (st : World μ σ) : List (Label μ) → Option (World μ σ)
  | [] => some st
  | l :: ls =>
    match step W n st l with
    | none => none
    | some st' => run W n st' ls

/-- reachable: some run from the initial world -/
def Reach [DecidableEq μ] (W : Wrapped μ σ) (n : Nat) (st : World μ σ) : Prop :=
  ∃ st0 ls, init W n = some st0 ∧ run W n st0 ls = some st

/-! ## `ActorModel::next_state` over the three `Network` kinds, as machine steps -/

inductive Kind where
  | dup       -- Network::UnorderedDuplicating (a set; delivery leaves the envelope in place)
  | nondup    -- Network::UnorderedNonDuplicating (a multiset)
  | ordered   -- Network::Ordered (per-flow FIFO; the model keeps the multiset and is told the heads)
deriving DecidableEq, Repr

inductive Action (μ : Type) where
  | deliver (p : Packet μ)
  | drop (p : Packet μ)
  | timeout (i : Id)
deriving DecidableEq, Repr

inductive Outcome (μ σ : Type) where
  | ignored                  -- `next_state` returned `None`
  | panic                    -- `todo!()` reached
  | invalid                  -- the action is not enabled in this state (never produced by `actions`)
  | next (st : World μ σ)

/-- the elements that occur again later in the list -/
def extras {α : Type} [DecidableEq α] : List α → List α
  | [] => []
  | x :: xs => if x ∈ xs then x :: extras xs else extras xs

/-- machine steps for one implementation action; `none` = ignored -/
def implLabels [DecidableEq μ] (W : Wrapped μ σ) (kind : Kind) (st : World μ σ) :
    Action μ → Option (List (Label μ))
  | .drop p => some [Label.drop p]
  | .timeout i => if isNoOpWithTimer (onTimeout (st.nodes i)) then none else some [Label.timeout i]
  | .deliver p =>
    match onMsg W p.dst (st.nodes p.dst) p.src p.env with
    | none => some [Label.deliver p]
    | some r =>
      if isNoOp r && kind != Kind.ordered then none
      else if kind = Kind.dup then some [Label.dup p, Label.deliver p]
      else some [Label.deliver p]

/-- does the handler reach a `todo!()`? -/
def panics [DecidableEq μ] (W : Wrapped μ σ) (st : World μ σ) : Action μ → Bool
  | .deliver p => (onMsg W p.dst (st.nodes p.dst) p.src p.env).isNone
  | _ => false

/-- `next_state`. For the duplicating network the envelope set is restored by dropping surplus copies. -/
def implNext [DecidableEq μ] (W : Wrapped μ σ) (n : Nat) (kind : Kind) (st : World μ σ)
    (a : Action μ) : Outcome μ σ :=
  if panics W st a then Outcome.panic else
  match implLabels W kind st a with
  | none => Outcome.ignored
  | some ls =>
    match run W n st ls with
    | none => Outcome.invalid
    | some st1 =>
      if kind = Kind.dup then
        match run W n st1 ((extras st1.net).map Label.drop) with
        | none => Outcome.invalid
        | some st2 => Outcome.next st2
      else Outcome.next st1

/-- the states `ActorModel` can reach: its initial state, then `next_state` for any action whatsoever -/
inductive ImplReach [DecidableEq μ] (W : Wrapped μ σ) (n : Nat) (kind : Kind) : World μ σ → Prop
  | init {st} : init W n = some st → ImplReach W n kind st
  | next {st st'} (a : Action μ) : ImplReach W n kind st → implNext W n kind st a = Outcome.next st' →
      ImplReach W n kind st'

/-- distinct elements, first occurrences kept -/
def distinct {α : Type} [DecidableEq α] : List α → List α
  | [] => []
  | x :: xs => x :: (distinct xs).filter (fun y => decide (y ≠ x))

/-- `actions`: for each distinct deliverable envelope a Drop (lossy) and a Deliver (recipient exists), then
one Timeout per actor (the network timer is always set). For `Kind.ordered` the deliverable envelopes are
the flow heads, which the multiset does not determine: they are passed in. -/
def implActions [DecidableEq μ] (n : Nat) (lossy : Bool) (deliverable : List (Packet μ)) : List (Action μ) :=
  (distinct deliverable).flatMap (fun p =>
      (if lossy then [Action.drop p] else []) ++ (if p.dst < n then [Action.deliver p] else []))
    ++ (List.range n).map Action.timeout

end SR.Orl
