/-!
# Actor glue: small pure helpers of the actor layer (model)

Transcriptions (current /repo tree) of
* `majority`, `peer_ids` (src/actor.rs), `model_peers` (src/actor/model.rs),
* `Network::names` (the private `IterStr` iterator) and `FromStr for Network` (src/actor/network.rs),
* the client arm of `RegisterActor::on_start` / `WORegisterActor::on_start` (src/actor/register.rs,
  src/actor/write_once_register.rs; the two are the same text).

Ids are `Nat` (model-checked actors: `Id::from(usize)`), characters are their code points.
Core Lean only (linked into `drv_actobs`).
-/
namespace SR.Glue

/-- `majority(cluster_size) = cluster_size / 2 + 1` (no overflow: `usize::MAX / 2 + 1` fits). -/
def majority (n : Nat) : Nat := n / 2 + 1

/-- `peer_ids(self_id, other_ids)`: `other_ids.into_iter().filter(|o| o != &self_id)`. -/
def peerIds (self : Nat) (ids : List Nat) : List Nat := ids.filter (fun o => o != self)

/-- `model_peers(self_ix, count)`: `(0..count).filter(|j| *j != self_ix).map(Into::into).collect()`. -/
def modelPeers (i n : Nat) : List Nat := (List.range n).filter (fun j => j != i)

/-! ## network names -/

inductive NetKind where
  | ordered | dup | nondup
  deriving DecidableEq, Repr

def NetKind.str : NetKind → String
  | .ordered => "ordered"
  | .dup => "unordered_duplicating"
  | .nondup => "unordered_nonduplicating"

/-- `IterStr::next`: the state is the kind whose name is produced next (`None` = exhausted). -/
def iterNext : Option NetKind → Option (String × Option NetKind)
  | some .ordered => some ("ordered", some .dup)
  | some .dup => some ("unordered_duplicating", some .nondup)
  | some .nondup => some ("unordered_nonduplicating", none)
  | none => none

/-- `Iterator::collect` with fuel (the iterator is exhausted after three items; fuel 8 is ample). -/
def collect : Nat → Option NetKind → List String
  | 0, _ => []
  | fuel + 1, st =>
    match iterNext st with
    | none => []
    | some (s, st') => s :: collect fuel st'

/-- `Network::names()`: the iterator started at `Ordered`. -/
def names : List String := collect 8 (some .ordered)

/-- `FromStr for Network`: the kind of the (empty) network, `none` = `Err(..)`. -/
def fromStr (s : String) : Option NetKind :=
  if s = "ordered" then some .ordered
  else if s = "unordered_duplicating" then some .dup
  else if s = "unordered_nonduplicating" then some .nondup
  else none

/-! ## register-harness client start-up -/

/-- result of the client arm of `on_start`: the state `Client { awaiting, op_count }` and the sends
`(dst, request id, value code point)` (always a `Put`) -/
structure ClientStart where
  awaiting : Option Nat
  opCount : Nat
  sends : List (Nat × Nat × Nat)
  deriving DecidableEq, Repr

/-- Client arm of `on_start` for `Client { put_count, server_count }` started as `Id(index)`; `none` = panic.
Evaluation order of the code: the "clients after servers" check; `put_count == 0`; the value
`(b'A' + (index - server_count) as u8) as char` (the `as u8` truncates, the `u8` addition panics on overflow in
the checked build the harness uses); then the destination `(index + 0) % server_count` (panics for
`server_count == 0`). -/
def clientStart (putCount sc index : Nat) : Option ClientStart :=
  if index < sc then none
  else if putCount = 0 then some ⟨none, 0, []⟩
  else
    let off := (index - sc) % 256
    if 65 + off > 255 then none
    else if sc = 0 then none
    else some ⟨some index, 1, [(index % sc, index, 65 + off)]⟩

end SR.Glue
