import SR.Actor.Sys
/-
The actor adapters of src/actor.rs (`Choice<A, Never>`, `Choice<A1, A2>`), src/actor/register.rs and
src/actor/write_once_register.rs (`Server` variant only), and the scripted `Vec<(Id, Msg)>` client.

All four adapters have the same shape in the code: look at the tag of the state, run the wrapped actor's
handler on the untagged state with a fresh `Out`, append that `Out`, and re-tag the state if the wrapped
handler left it `Cow::Owned`. They differ only in the tag and in what happens when the tag does not match
the actor (`unreachable!()` = panic for `Choice`, `_ => {}` = no-op for the register actors). `Actor.wrap`
is that shape; the adapters are its instances, and the driver uses the same function on its universal state type.
-/
namespace SR.Actor

variable {σ σ' : Type}

/-- the common shape of the adapters -/
def Actor.wrap (tag : σ → σ') (untag : σ' → Option σ) (miss : HRes σ') (a : Actor σ) : Actor σ' where
  start id := ((a.start id).1 |> tag, (a.start id).2)
  msg id s src m :=
    match untag s with
    | some s0 => (a.msg id s0 src m).map tag
    | none => miss
  timeout id s t :=
    match untag s with
    | some s0 => (a.timeout id s0 t).map tag
    | none => miss
  random id s r :=
    match untag s with
    | some s0 => (a.random id s0 r).map tag
    | none => miss

/-- `Choice::L(a) : Choice<A1, A2>` -/
def Actor.wrapL (a : Actor σ) : Actor (σ ⊕ σ') := a.wrap Sum.inl Sum.getLeft? .panic

/-- `Choice::R(a) : Choice<A1, A2>` -/
def Actor.wrapR (a : Actor σ') : Actor (σ ⊕ σ') := a.wrap Sum.inr Sum.getRight? .panic

/-- `Choice::new(a) : Choice<A, Never>` -/
def Actor.wrapOnly (a : Actor σ) : Actor (σ ⊕ Empty) := a.wrap Sum.inl Sum.getLeft? .panic

/-- `RegisterActorState<ServerState, RequestId>` / `WORegisterActorState` -/
inductive RegSt (σ : Type) where
  | client (awaiting : Option Nat) (opCount : Nat)
  | server (s : σ)
deriving DecidableEq, Repr

def RegSt.server? : RegSt σ → Option σ
  | .server s => some s
  | .client _ _ => none

/-- `RegisterActor::Server(a)` and `WORegisterActor::Server(a)` (the `(Server, Client-state)` arm is `_ => {}`) -/
def Actor.serverOf (a : Actor σ) : Actor (RegSt σ) := a.wrap RegSt.server RegSt.server? (.ok none [])

/-- `impl Actor for Vec<(Id, Msg)>`: state = number of script entries already sent -/
def scripted (script : List (Nat × Nat)) : Actor Nat where
  start _ :=
    match script.head? with
    | some (dst, m) => (1, [Cmd.send dst m])
    | none => (0, [])
  msg _ s _ _ :=
    match script[s]? with
    | some (dst, m) => .ok (some (s + 1)) [Cmd.send dst m]
    | none => .ok none []
  timeout _ _ _ := .ok none []     -- trait defaults
  random _ _ _ := .ok none []

/-- the system obtained by wrapping every actor `i` with its own tag -/
def ActorSys.mapActors {η : Type} (sys : ActorSys σ η) (w : Nat → Actor σ → Actor σ') : ActorSys σ' η :=
  { sys with actor := fun i => w i (sys.actor i) }

/-- lifting a system state along per-actor tags -/
def St.lift {η : Type} (tag : Nat → σ → σ') (st : St σ η) : St σ' η :=
  { st with actors := st.actors.mapIdx tag }

end SR.Actor
