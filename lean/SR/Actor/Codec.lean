import SR.SExp
import SR.Actor.Adapters
import Std.Data.HashMap
/-
Wire format of actor systems, states and actions shared by the drivers of C06, C07, C09, C15, and the
bounded breadth-first walk both sides perform (I/O glue: the functions under test are `init`, `actions`,
`step` of SR/Actor/Sys.lean and the adapters of SR/Actor/Adapters.lean).

  sys    := (kind lossy maxCrashes histIn histOut (env ...) last (actor ...))
            kind: d | n | o     last: none | (some env)     env := (src dst msg)
  actor  := (tab (s0 cmds) (msgrow ...) (trow ...) (rrow ...)) | (vec (dst msg) ...)
          | (L actor) | (R actor) | (O actor) | (S actor) | (W actor)
  msgrow := (state src msg ns cmds)    trow := (state timer ns cmds)    rrow := (state random ns cmds)
  ns     := - | newstate               cmds := (cmd ...)
  cmd    := (s dst msg) | (t timer) | (c timer) | (r key choice ...)
  state  := ((ustate ...) net ((timer ...) ...) (((key choice ...) ...) ...) (crashed01 ...) (hist ...))
  ustate := n | (L ustate) | (R ustate) | (S ustate) | (W ustate)
  net    := (d (env ...) last) | (n ((src dst msg count) ...)) | (o ((src dst msg ...) ...))
  action := (d src dst msg) | (x src dst msg) | (t id timer) | (c id) | (r id key choice)
-/
namespace SR.Actor.Codec
open SR SR.Actor

/-- universal actor-state type of the drivers: a table/script state under a stack of adapter tags -/
inductive U where
  | base (n : Nat)
  | L (u : U)
  | R (u : U)
  | S (u : U)
  | W (u : U)
deriving DecidableEq, Repr, Inhabited

def U.L? : U → Option U | .L u => some u | _ => none
def U.R? : U → Option U | .R u => some u | _ => none
def U.S? : U → Option U | .S u => some u | _ => none
def U.W? : U → Option U | .W u => some u | _ => none
def U.base? : U → Option Nat | .base n => some n | _ => none

/-! ### decoding -/

def env? : SExp → Option Env
  | .list [s, d, m] => do pure ⟨← s.nat?, ← d.nat?, ← m.nat?⟩
  | _ => none

def cmd? : SExp → Option Cmd
  | .list [.atom "s", d, m] => do pure (.send (← d.nat?) (← m.nat?))
  | .list [.atom "t", t] => do pure (.setTimer (← t.nat?))
  | .list [.atom "c", t] => do pure (.cancelTimer (← t.nat?))
  | .list (.atom "r" :: k :: cs) => do pure (.chooseRandom (← k.nat?) (← cs.mapM SExp.nat?))
  | _ => none

def ns? : SExp → Option (Option Nat)
  | .atom "-" => some none
  | x => x.nat?.map some

structure Table where
  start : Nat × List Cmd
  msgRows : List ((Nat × Nat × Nat) × (Option Nat × List Cmd))
  tRows : List ((Nat × Nat) × (Option Nat × List Cmd))
  rRows : List ((Nat × Nat) × (Option Nat × List Cmd))

def row3? : SExp → Option ((Nat × Nat × Nat) × (Option Nat × List Cmd))
  | .list [s, a, b, n, c] => do
    pure ((← s.nat?, ← a.nat?, ← b.nat?), (← ns? n, ← c.listOf? cmd?))
  | _ => none

def row2? : SExp → Option ((Nat × Nat) × (Option Nat × List Cmd))
  | .list [s, a, n, c] => do pure ((← s.nat?, ← a.nat?), (← ns? n, ← c.listOf? cmd?))
  | _ => none

def table? : List SExp → Option Table
  | [.list [s0, c0], mr, tr, rr] => do
    pure { start := (← s0.nat?, ← c0.listOf? cmd?), msgRows := ← mr.listOf? row3?,
           tRows := ← tr.listOf? row2?, rRows := ← rr.listOf? row2? }
  | _ => none

/-- a missing row is a no-op: state left borrowed, no commands -/
def rowRes {κ : Type} [DecidableEq κ] (rows : List (κ × (Option Nat × List Cmd))) (k : κ) : HRes Nat :=
  match alookup k rows with
  | some (ns, cmds) => .ok ns cmds
  | none => .ok none []

/-- the `TableActor` of the harness: handlers look the event up in the table (the actor id is not a key:
one table per actor instance) -/
def tabActor (t : Table) : Actor Nat where
  start _ := t.start
  msg _ s src m := rowRes t.msgRows (s, src, m)
  timeout _ s tm := rowRes t.tRows (s, tm)
  random _ s r := rowRes t.rRows (s, r)

def pair? : SExp → Option (Nat × Nat)
  | .list [a, b] => do pure (← a.nat?, ← b.nat?)
  | _ => none

/-- base embedding (glue, not an adapter of the crate): a handler over `Nat` states seen over `U` -/
def embed (a : Actor Nat) : Actor U := a.wrap U.base U.base? .panic

partial def actor? : SExp → Option (Actor U)
  | .list (.atom "tab" :: rest) => (table? rest).map (fun t => embed (tabActor t))
  | .list (.atom "vec" :: rest) => (rest.mapM pair?).map (fun s => embed (scripted s))
  | .list [.atom "L", a] => (actor? a).map (Actor.wrap U.L U.L? .panic)      -- Choice::L in Choice<A1,A2>
  | .list [.atom "R", a] => (actor? a).map (Actor.wrap U.R U.R? .panic)      -- Choice::R
  | .list [.atom "O", a] => (actor? a).map (Actor.wrap U.L U.L? .panic)      -- Choice<A,Never>
  | .list [.atom "S", a] => (actor? a).map (Actor.wrap U.S U.S? (.ok none []))  -- RegisterActor::Server
  | .list [.atom "W", a] => (actor? a).map (Actor.wrap U.W U.W? (.ok none []))  -- WORegisterActor::Server
  | _ => none

/-- code of an envelope in the history log -/
def envCode (base : Nat) (e : Env) : Nat := base + e.src * 100 + e.dst * 10 + e.msg

/-- the history hooks of the harness (`HistCfg`): mode 0 never records, 1 appends, 2 appends messages with
an even code only (mix of `Some`/`None`), 3 keeps the last two entries -/
def record (mode base : Nat) (h : List Nat) (e : Env) : Option (List Nat) :=
  match mode with
  | 0 => none
  | 1 => some (h ++ [envCode base e])
  | 2 => if e.msg % 2 = 0 then some (h ++ [envCode base e]) else none
  | _ => some ((h ++ [envCode base e]).drop ((h ++ [envCode base e]).length - 2))

def mkNet (kind : String) (envs : List Env) (last : Option Env) : Option Net :=
  match kind with
  | "d" => some (envs.foldl Net.send (Net.dup [] last))
  | "n" => some (envs.foldl Net.send (Net.nondup []))
  | "o" => some (envs.foldl Net.send (Net.ord []))
  | _ => none

abbrev H := List Nat
abbrev USys := ActorSys U H
abbrev USt := St U H

def sys? : SExp → Option USys
  | .list [.atom kind, lossy, maxc, hin, hout, envs, last, actors] => do
    let envs ← envs.listOf? env?
    let last ← SExp.optOf? env? last
    let net ← mkNet kind envs last
    let acts ← actors.listOf? actor?
    let hin ← hin.nat?
    let hout ← hout.nat?
    let dflt : Actor U := embed (tabActor { start := (0, []), msgRows := [], tRows := [], rRows := [] })
    pure { n := acts.length, actor := fun i => acts.getD i dflt, lossy := ← lossy.bool?,
           maxCrashes := ← maxc.nat?, initNet := net, initHist := [],
           recordIn := record hin 1000, recordOut := record hout 2000 }
  | _ => none

partial def ustate? : SExp → Option U
  | .list [.atom "L", u] => (ustate? u).map U.L
  | .list [.atom "R", u] => (ustate? u).map U.R
  | .list [.atom "S", u] => (ustate? u).map U.S
  | .list [.atom "W", u] => (ustate? u).map U.W
  | x => x.nat?.map U.base

def net? : SExp → Option Net
  | .list [.atom "d", envs, last] => do pure (.dup (← envs.listOf? env?) (← SExp.optOf? env? last))
  | .list [.atom "n", ms] => do
    let ms ← ms.listOf? (fun
      | .list [s, d, m, c] => do pure ((⟨← s.nat?, ← d.nat?, ← m.nat?⟩ : Env), ← c.nat?)
      | _ => none)
    pure (.nondup ms)
  | .list [.atom "o", fs] => do
    let fs ← fs.listOf? (fun
      | .list (s :: d :: ms) => do pure ((← s.nat?, ← d.nat?), ← ms.mapM SExp.nat?)
      | _ => none)
    pure (.ord fs)
  | _ => none

def st? : SExp → Option USt
  | .list [actors, net, timers, random, crashed, hist] => do
    let random ← random.listOf? (SExp.listOf? (fun
      | .list (k :: cs) => do pure (← k.nat?, ← cs.mapM SExp.nat?)
      | _ => none))
    pure { actors := ← actors.listOf? ustate?, net := ← net? net, timers := ← timers.listOf? SExp.nats?,
           random := random, crashed := ← crashed.listOf? SExp.bool?, hist := ← hist.nats? }
  | _ => none

def action? : SExp → Option Action
  | .list [.atom "d", s, d, m] => do pure (.deliver ⟨← s.nat?, ← d.nat?, ← m.nat?⟩)
  | .list [.atom "x", s, d, m] => do pure (.drop ⟨← s.nat?, ← d.nat?, ← m.nat?⟩)
  | .list [.atom "t", i, t] => do pure (.timeout (← i.nat?) (← t.nat?))
  | .list [.atom "c", i] => do pure (.crash (← i.nat?))
  | .list [.atom "r", i, k, r] => do pure (.selectRandom (← i.nat?) (← k.nat?) (← r.nat?))
  | _ => none

/-! ### encoding -/

def ofEnv (e : Env) : SExp := SExp.ofNats [e.src, e.dst, e.msg]

def ofU : U → SExp
  | .base n => SExp.ofNat n
  | .L u => .list [.atom "L", ofU u]
  | .R u => .list [.atom "R", ofU u]
  | .S u => .list [.atom "S", ofU u]
  | .W u => .list [.atom "W", ofU u]

def ofNet : Net → SExp
  | .dup set last => .list [.atom "d", SExp.ofList ofEnv set, SExp.ofOpt ofEnv last]
  | .nondup ms => .list [.atom "n", SExp.ofList (fun p => SExp.ofNats [p.1.src, p.1.dst, p.1.msg, p.2]) ms]
  | .ord fs => .list [.atom "o", SExp.ofList (fun p => SExp.ofNats (p.1.1 :: p.1.2 :: p.2)) fs]

def ofSt (st : USt) : SExp :=
  .list [SExp.ofList ofU st.actors, ofNet st.net, SExp.ofList SExp.ofNats st.timers,
         SExp.ofList (SExp.ofList (fun kv => SExp.ofNats (kv.1 :: kv.2))) st.random,
         SExp.ofList (fun b => .atom (if b then "1" else "0")) st.crashed, SExp.ofNats st.hist]

def ofAction : Action → SExp
  | .deliver e => .list [.atom "d", SExp.ofNat e.src, SExp.ofNat e.dst, SExp.ofNat e.msg]
  | .drop e => .list [.atom "x", SExp.ofNat e.src, SExp.ofNat e.dst, SExp.ofNat e.msg]
  | .timeout i t => .list [.atom "t", SExp.ofNat i, SExp.ofNat t]
  | .crash i => .list [.atom "c", SExp.ofNat i]
  | .selectRandom i k r => .list [.atom "r", SExp.ofNat i, SExp.ofNat k, SExp.ofNat r]

/-- sort key shared with the harness: kind tag, then the fields -/
def actionKey : Action → List Nat
  | .deliver e => [0, e.src, e.dst, e.msg]
  | .drop e => [1, e.src, e.dst, e.msg]
  | .timeout i t => [2, i, t]
  | .crash i => [3, i]
  | .selectRandom i k r => [4, i, k, r]

def natsLe : List Nat → List Nat → Bool
  | [], _ => true
  | _ :: _, [] => false
  | a :: as, b :: bs => a < b || (a == b && natsLe as bs)

/-- the enabled actions, canonicalised (the code's order depends on hash iteration order) -/
def sortActions (as : List Action) : List Action :=
  as.mergeSort (fun a b => natsLe (actionKey a) (actionKey b))

def ofOutcomeSt : Outcome USt → String
  | .panic => "panic"
  | .ignored => "none"
  | .next s => toString (SExp.list [.atom "some", ofSt s])

/-! ### bounded breadth-first walk (mirrors `srh::table_actor::explore`) -/

structure Walk where
  states : Array USt                    -- discovery order
  index : Std.HashMap String Nat         -- canonical text ↦ index
  records : Array (List (Action × String))   -- per expanded state: sorted actions with `-`, `!` or successor index

/-- expand states in discovery order until `bound` states are expanded or none is left -/
partial def walkLoop (sys : USys) (bound : Nat) (w : Walk) : Walk :=
  let i := w.records.size
  if i ≥ bound then w else
  match w.states[i]? with
  | none => w
  | some st =>
    let acts := sortActions (actions sys st)
    let (w, recs) := acts.foldl (init := (w, ([] : List (Action × String)))) fun (w, recs) a =>
      match step sys st a with
      | .panic => (w, (a, "!") :: recs)
      | .ignored => (w, (a, "-") :: recs)
      | .next s' =>
        let key := toString (ofSt s')
        match w.index[key]? with
        | some j => (w, (a, toString j) :: recs)
        | none =>
          let j := w.states.size
          ({ w with states := w.states.push s', index := w.index.insert key j }, (a, toString j) :: recs)
    walkLoop sys bound { w with records := w.records.push recs.reverse }

def walk (sys : USys) (bound : Nat) : Option Walk :=
  match init sys with
  | none => none
  | some st0 =>
    some (walkLoop sys bound
      { states := #[st0], index := (Std.HashMap.emptyWithCapacity 64).insert (toString (ofSt st0)) 0, records := #[] })

def ofWalk (w : Walk) : String :=
  let sts := SExp.list (w.states.toList.map ofSt)
  let recs := SExp.list (w.records.toList.map fun r =>
    SExp.list (r.map fun (a, res) => SExp.list [ofAction a, .atom res]))
  s!"{sts} {recs}"

end SR.Actor.Codec
