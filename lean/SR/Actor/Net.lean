/-
The three network kinds of src/actor/network.rs, transcribed.

Representation (canonical forms; Rust `==` on networks coincides with `=` here as long as the lists are
kept sorted, which every operation below does):
* `dup set last`      — `UnorderedDuplicating(HashableHashSet<Envelope>, Option<Envelope>)`:
                         duplicate-free list of envelopes sorted by (src,dst,msg) + last delivered envelope;
* `nondup ms`         — `UnorderedNonDuplicating(HashableHashMap<Envelope, usize>)`: envelope ↦ count, sorted by envelope;
* `ord flows`         — `Ordered(BTreeMap<(Id,Id), VecDeque<Msg>>)`: (src,dst) ↦ queue, sorted by key.

Ids, messages are `Nat` (the theorems quantify over handler functions; alphabets are countable).
A `none` result of `onDeliver`/`onDrop` is a Rust panic ("envelope not found", "flow not found",
"message not found", failed `assert!(value > 0)`).

Not modelled: a hand-built `Network::Ordered` whose map holds an EMPTY queue makes `iter_deliverable` /
`iter_all` panic in the code (`expect("empty channel")`, `unwrap()`); here such a flow is skipped / ends the
iteration. Every constructor `new_*` and every operation keeps queues non-empty (`Net.Canon`, proved invariant).
-/
namespace SR.Actor

/-- `Envelope<Msg>` -/
structure Env where
  src : Nat
  dst : Nat
  msg : Nat
deriving DecidableEq, Repr, Inhabited

/-- derived `Ord` of `Envelope`: lexicographic (src, dst, msg) -/
def Env.lt (a b : Env) : Bool :=
  a.src < b.src || (a.src == b.src && (a.dst < b.dst || (a.dst == b.dst && a.msg < b.msg)))

/-- order of flow keys `(Id, Id)` -/
def pairLt (a b : Nat × Nat) : Bool := a.1 < b.1 || (a.1 == b.1 && a.2 < b.2)

/-! ### sorted lists as sets and maps -/

/-- insert into a sorted duplicate-free list (no-op if present anywhere) -/
def sinsRaw {α : Type} (lt : α → α → Bool) (a : α) : List α → List α
  | [] => [a]
  | b :: l => if lt a b then a :: b :: l else b :: sinsRaw lt a l

/-- set insert -/
def sins {α : Type} [DecidableEq α] (lt : α → α → Bool) (a : α) (l : List α) : List α :=
  if a ∈ l then l else sinsRaw lt a l

/-- set remove -/
def srem {α : Type} [DecidableEq α] (a : α) (l : List α) : List α := l.filter (fun b => b ≠ a)

/-- map lookup (first entry with the key) -/
def alookup {κ β : Type} [DecidableEq κ] (k : κ) : List (κ × β) → Option β
  | [] => none
  | (k', v) :: l => if k = k' then some v else alookup k l

/-- insert a fresh key at its sorted position -/
def ainsRaw {κ β : Type} (lt : κ → κ → Bool) (k : κ) (v : β) : List (κ × β) → List (κ × β)
  | [] => [(k, v)]
  | (k', v') :: l => if lt k k' then (k, v) :: (k', v') :: l else (k', v') :: ainsRaw lt k v l

/-- overwrite the value of a present key -/
def aset {κ β : Type} [DecidableEq κ] (k : κ) (v : β) (l : List (κ × β)) : List (κ × β) :=
  l.map (fun p => if p.1 = k then (p.1, v) else p)

/-- map insert-or-overwrite -/
def ainsert {κ β : Type} [DecidableEq κ] (lt : κ → κ → Bool) (k : κ) (v : β) (l : List (κ × β)) :
    List (κ × β) :=
  match alookup k l with
  | some _ => aset k v l
  | none => ainsRaw lt k v l

/-- map remove -/
def aremove {κ β : Type} [DecidableEq κ] (k : κ) (l : List (κ × β)) : List (κ × β) :=
  l.filter (fun p => p.1 ≠ k)

/-! ### networks -/

inductive Net where
  | dup (set : List Env) (last : Option Env)
  | nondup (ms : List (Env × Nat))
  | ord (flows : List ((Nat × Nat) × List Nat))
deriving DecidableEq, Repr, Inhabited

namespace Net

def isOrdered : Net → Bool
  | ord _ => true
  | _ => false

def isDup : Net → Bool
  | dup _ _ => true
  | _ => false

/-- number of copies of `e` in flight, read off the representation (set membership / multiset count /
occurrences in the queue of its flow) -/
def count (n : Net) (e : Env) : Nat :=
  match n with
  | nondup ms => (alookup e ms).getD 0
  | dup set _ => if e ∈ set then 1 else 0
  | ord flows => ((alookup (e.src, e.dst) flows).getD []).count e.msg

/-- queue of flow `f` (ordered) -/
def queue (n : Net) (f : Nat × Nat) : List Nat :=
  match n with
  | ord flows => (alookup f flows).getD []
  | _ => []

/-- `Network::send` -/
def send (n : Net) (e : Env) : Net :=
  match n with
  | dup set last => dup (sins Env.lt e set) last
  | nondup ms => nondup (ainsert Env.lt e ((alookup e ms).getD 0 + 1) ms)
  | ord flows => ord (ainsert pairLt (e.src, e.dst) ((alookup (e.src, e.dst) flows).getD [] ++ [e.msg]) flows)

/-- the shared body of `on_deliver` / `on_drop` for the non-duplicating and the ordered network -/
def removeOne (n : Net) (e : Env) : Option Net :=
  match n with
  | dup set last => some (dup set last)   -- not used
  | nondup ms =>
    match alookup e ms with
    | none => none                                   -- panic!("envelope not found")
    | some c =>
      if c = 0 then none                             -- assert!(value > 0)
      else if c = 1 then some (nondup (aremove e ms))
      else some (nondup (aset e (c - 1) ms))
  | ord flows =>
    match alookup (e.src, e.dst) flows with
    | none => none                                   -- panic!("flow not found")
    | some q =>
      match q.idxOf? e.msg with
      | none => none                                 -- expect("message not found")
      | some i =>
        if q.length > 1 then some (ord (aset (e.src, e.dst) (q.eraseIdx i) flows))
        else some (ord (aremove (e.src, e.dst) flows))

/-- `Network::on_deliver`; `none` = panic -/
def onDeliver (n : Net) (e : Env) : Option Net :=
  match n with
  | dup set _ => some (dup set (some e))
  | _ => removeOne n e

/-- `Network::on_drop`; `none` = panic -/
def onDrop (n : Net) (e : Env) : Option Net :=
  match n with
  | dup set last => some (dup (srem e set) last)
  | _ => removeOne n e

/-- `Network::len` -/
def len : Net → Nat
  | dup set _ => set.length
  | nondup ms => (ms.map (·.2)).sum
  | ord flows => (flows.map (·.2.length)).sum

/-- the envelopes in flight, with multiplicity (declarative reading of the representation) -/
def contents : Net → List Env
  | dup set _ => set
  | nondup ms => ms.flatMap (fun p => List.replicate p.2 p.1)
  | ord flows => flows.flatMap (fun p => p.2.map (fun m => ⟨p.1.1, p.1.2, m⟩))

/-- `Network::iter_deliverable` (the three deliverable iterators are plain maps over the inner iterator) -/
def iterDeliverable : Net → List Env
  | dup set _ => set
  | nondup ms => ms.map (·.1)
  | ord flows => flows.filterMap (fun p => p.2.head?.map (fun m => ⟨p.1.1, p.1.2, m⟩))

/-- canonical form: counts ≥ 1, queues non-empty, keys pairwise distinct -/
def Canon : Net → Prop
  | dup set _ => set.Nodup
  | nondup ms => (∀ p ∈ ms, 1 ≤ p.2) ∧ (ms.map (·.1)).Nodup
  | ord flows => (∀ p ∈ flows, p.2 ≠ []) ∧ (flows.map (·.1)).Nodup

end Net

/-! ### `NetworkIter` (iter_all) as a state machine -/

/-- `NetworkIter<'a, Msg>`: the inner iterator is the list of entries not yet visited -/
inductive AllIt where
  | dup (rest : List Env)
  | nondup (active : Option (Env × Nat)) (rest : List (Env × Nat))
  | ord (active : Option (Nat × Nat × List Nat × Nat)) (rest : List ((Nat × Nat) × List Nat))
deriving Repr

namespace AllIt

/-- "move to the next flow" branch of the ordered iterator -/
def ordNext : List ((Nat × Nat) × List Nat) → Option (Env × AllIt)
  | [] => none
  | ((s, d), msgs) :: rest =>
    match msgs.head? with
    | some m => some (⟨s, d, m⟩, .ord (some (s, d, msgs, 1)) rest)
    | none => none    -- `front().unwrap()` on an empty queue (panic in the code; not reachable, see header)

/-- `Iterator::next` -/
def next : AllIt → Option (Env × AllIt)
  | .dup [] => none
  | .dup (e :: r) => some (e, .dup r)
  | .nondup (some (e, c)) rest =>
    some (e, .nondup (if c - 1 = 0 then none else some (e, c - 1)) rest)
  | .nondup none [] => none
  | .nondup none ((e, c) :: rest) =>
    some (e, .nondup (if c > 1 then some (e, c - 1) else none) rest)
  | .ord (some (s, d, msgs, i)) rest =>
    match msgs[i]? with
    | some m => some (⟨s, d, m⟩, .ord (some (s, d, msgs, i + 1)) rest)
    | none => ordNext rest
  | .ord none rest => ordNext rest

/-- call `next` until it answers `None`, at most `fuel` times -/
def drain : Nat → AllIt → List Env
  | 0, _ => []
  | fuel + 1, it =>
    match it.next with
    | none => []
    | some (e, it') => e :: drain fuel it'

/-- what is still to be yielded (declarative) -/
def items : AllIt → List Env
  | .dup rest => rest
  | .nondup active rest =>
    (match active with | some (e, c) => List.replicate c e | none => []) ++
      rest.flatMap (fun p => List.replicate p.2 p.1)
  | .ord active rest =>
    (match active with | some (s, d, msgs, i) => (msgs.drop i).map (fun m => ⟨s, d, m⟩) | none => []) ++
      rest.flatMap (fun p => p.2.map (fun m => ⟨p.1.1, p.1.2, m⟩))

end AllIt

/-- `Network::iter_all` -/
def Net.iterStart : Net → AllIt
  | .dup set _ => .dup set
  | .nondup ms => .nondup none ms
  | .ord flows => .ord none flows

/-- everything `iter_all()` yields; the fuel `len + 2` is the harness's `take(len + 2)` guard, so that an
iterator producing too many items (as before the repair of F3) is visible -/
def Net.iterAll (n : Net) : List Env := AllIt.drain (n.len + 2) n.iterStart

/-! ### operation sequences on a network (C07) -/

inductive NetOp where
  | send (e : Env)
  | deliver (e : Env)
  | drop (e : Env)
deriving DecidableEq, Repr

/-- one operation; `none` = panic -/
def Net.apply (n : Net) : NetOp → Option Net
  | .send e => some (n.send e)
  | .deliver e => n.onDeliver e
  | .drop e => n.onDrop e

/-- the op is one the actor model can perform: deliveries and drops only of deliverable envelopes -/
def Net.valid (n : Net) : NetOp → Bool
  | .send _ => true
  | .deliver e => decide (e ∈ n.iterDeliverable)
  | .drop e => decide (e ∈ n.iterDeliverable)

/-- run a sequence of valid ops; `none` if an op is not valid or panics -/
def Net.run : Net → List NetOp → Option Net
  | n, [] => some n
  | n, op :: ops => if n.valid op then (n.apply op).bind (fun n' => Net.run n' ops) else none

end SR.Actor
