import SR.Basic
import SR.Actor.Net
/-
`ActorModel` of src/actor/model.rs as a transition system, transcribed: `init_states`, `actions`,
`next_state`, `process_commands`, plus `is_no_op` / `is_no_op_with_timer` of src/actor.rs.

Handlers are FUNCTION parameters (`Actor σ`), so every theorem about `ActorSys` quantifies over all handler
tables. A handler result `HRes.ok ns cmds` is: `ns = some s'` ⇔ the handler left `Cow::Owned(s')`,
`ns = none` ⇔ it left the state `Cow::Borrowed`; `cmds` is the `Out` it filled, in emission order.
`HRes.panic` is a handler that panics (only the `unreachable!()` arms of the `Choice` adapters do).

`step` answers `Outcome.ignored` where `next_state` returns `None`, `Outcome.panic` where it panics
(index out of bounds, `Network::on_deliver/on_drop` panics, a panicking handler).
-/
namespace SR.Actor

/-- `Command<Msg, Timer, Random>` (the duration of `SetTimer` is irrelevant to the model) -/
inductive Cmd where
  | send (dst msg : Nat)
  | setTimer (t : Nat)
  | cancelTimer (t : Nat)
  | chooseRandom (key : Nat) (choices : List Nat)
deriving DecidableEq, Repr, Inhabited

/-- result of a handler invocation -/
inductive HRes (σ : Type) where
  | panic
  | ok (ns : Option σ) (cmds : List Cmd)
deriving Repr

def HRes.map {σ σ' : Type} (f : σ → σ') : HRes σ → HRes σ'
  | .panic => .panic
  | .ok ns cmds => .ok (ns.map f) cmds

/-- an `Actor` implementation: the four handlers as functions of exactly the arguments the trait passes -/
structure Actor (σ : Type) where
  start : (id : Nat) → σ × List Cmd
  msg : (id : Nat) → σ → (src : Nat) → (m : Nat) → HRes σ
  timeout : (id : Nat) → σ → (t : Nat) → HRes σ
  random : (id : Nat) → σ → (r : Nat) → HRes σ

/-- `ActorModel<A, C, H>`: `actor i` is `actors[i]`; `recordIn/Out` are `record_msg_in/out` with `cfg` applied -/
structure ActorSys (σ η : Type) where
  n : Nat
  actor : Nat → Actor σ
  lossy : Bool
  maxCrashes : Nat
  initNet : Net
  initHist : η
  recordIn : η → Env → Option η
  recordOut : η → Env → Option η

/-- `ActorModelState<A, H>`; `timers[i]` a sorted set, `random[i]` a map key ↦ choices sorted by key -/
structure St (σ η : Type) where
  actors : List σ
  net : Net
  timers : List (List Nat)
  random : List (List (Nat × List Nat))
  crashed : List Bool
  hist : η
deriving DecidableEq, Repr

/-- `ActorModelAction` -/
inductive Action where
  | deliver (e : Env)
  | drop (e : Env)
  | timeout (id t : Nat)
  | crash (id : Nat)
  | selectRandom (id key r : Nat)
deriving DecidableEq, Repr, Inhabited

inductive Outcome (α : Type) where
  | panic
  | ignored
  | next (s : α)
deriving DecidableEq, Repr

def Outcome.toOption {α : Type} : Outcome α → Option α
  | .next s => some s
  | _ => none

def natLt (a b : Nat) : Bool := a < b

/-- `is_no_op` -/
def isNoOp {σ : Type} (ns : Option σ) (cmds : List Cmd) : Bool := ns.isNone && cmds.isEmpty

/-- `is_no_op_with_timer` -/
def isNoOpWithTimer {σ : Type} (ns : Option σ) (cmds : List Cmd) (t : Nat) : Bool :=
  let keepTimer := cmds.any (fun c => c == Cmd.setTimer t)
  let unmodifiedOut := cmds.length == 1 && keepTimer
  ns.isNone && unmodifiedOut

variable {σ η : Type}

/-- one iteration of the loop of `process_commands`; `none` = index panic -/
def applyCmd (sys : ActorSys σ η) (id : Nat) (st : St σ η) : Cmd → Option (St σ η)
  | .send dst msg =>
    let e : Env := ⟨id, dst, msg⟩
    some { st with hist := (sys.recordOut st.hist e).getD st.hist, net := st.net.send e }
  | .setTimer t =>
    -- `if timers_set.len() <= index { resize_with(index + 1, Timers::new) }`
    let ts := if st.timers.length ≤ id then st.timers ++ List.replicate (id + 1 - st.timers.length) [] else st.timers
    some { st with timers := ts.modify id (sins natLt t) }
  | .cancelTimer t =>
    match st.timers[id]? with
    | none => none
    | some ts => some { st with timers := st.timers.set id (srem t ts) }
  | .chooseRandom key choices =>
    match st.random[id]? with
    | none => none
    | some m =>
      let m' := if choices.isEmpty then aremove key m else ainsert natLt key choices m
      some { st with random := st.random.set id m' }

/-- `process_commands` -/
def processCommands (sys : ActorSys σ η) (id : Nat) : List Cmd → St σ η → Option (St σ η)
  | [], st => some st
  | c :: cs, st => (applyCmd sys id st c).bind (processCommands sys id cs)

/-- the loop over the actors in `init_states` -/
def initLoop (sys : ActorSys σ η) : List Nat → St σ η → Option (St σ η)
  | [], st => some st
  | i :: is, st =>
    let (s, cmds) := (sys.actor i).start i
    (processCommands sys i cmds { st with actors := st.actors ++ [s] }).bind (initLoop sys is)

def init0 (sys : ActorSys σ η) : St σ η :=
  { actors := [], hist := sys.initHist, timers := List.replicate sys.n [],
    random := List.replicate sys.n [], net := sys.initNet, crashed := List.replicate sys.n false }

/-- `init_states` (one state; `none` = panic) -/
def init (sys : ActorSys σ η) : Option (St σ η) := initLoop sys (List.range sys.n) (init0 sys)

/-- the loop over `iter_deliverable()` in `actions`, with its `prev_channel` variable -/
def netActions (sys : ActorSys σ η) : Option (Nat × Nat) → List Env → List Action
  | _, [] => []
  | prev, e :: es =>
    let drop := if sys.lossy then [Action.drop e] else []
    if e.dst < sys.n then
      if sys.initNet.isOrdered then
        if prev = some (e.src, e.dst) then drop ++ netActions sys prev es
        else drop ++ [Action.deliver e] ++ netActions sys (some (e.src, e.dst)) es
      else drop ++ [Action.deliver e] ++ netActions sys prev es
    else drop ++ netActions sys prev es

def timeoutActions (timers : List (List Nat)) : List Action :=
  timers.zipIdx.flatMap (fun p => p.1.map (fun t => Action.timeout p.2 t))

def countCrashed (crashed : List Bool) : Nat := (crashed.filter (· == true)).length

def crashActions (maxCrashes : Nat) (crashed : List Bool) : List Action :=
  if countCrashed crashed < maxCrashes then
    crashed.zipIdx.filterMap (fun p => if !p.1 then some (Action.crash p.2) else none)
  else []

def randomActions (random : List (List (Nat × List Nat))) : List Action :=
  random.zipIdx.flatMap (fun p => p.1.flatMap (fun kv => kv.2.map (fun r => Action.selectRandom p.2 kv.1 r)))

/-- `actions` (in the code's order, given the canonical iteration order of the hash sets/maps) -/
def actions (sys : ActorSys σ η) (st : St σ η) : List Action :=
  netActions sys none st.net.iterDeliverable ++ timeoutActions st.timers ++
    crashActions sys.maxCrashes st.crashed ++ randomActions st.random

/-- "swap out revised actor state" -/
def setActor (actors : List σ) (i : Nat) : Option σ → List σ
  | some s => actors.set i s
  | none => actors

def ofOption {α : Type} : Option α → Outcome α
  | some s => .next s
  | none => .panic

/-- `next_state` -/
def step (sys : ActorSys σ η) (st : St σ η) : Action → Outcome (St σ η)
  | .drop e =>
    match st.net.onDrop e with
    | none => .panic
    | some net => .next { st with net := net }
  | .deliver e =>
    match st.actors[e.dst]? with
    | none => .ignored
    | some s =>
      match st.crashed[e.dst]? with
      | none => .panic
      | some true => .ignored
      | some false =>
        match (sys.actor e.dst).msg e.dst s e.src e.msg with
        | .panic => .panic
        | .ok ns cmds =>
          if isNoOp ns cmds && !sys.initNet.isOrdered then .ignored
          else
            let hist := sys.recordIn st.hist e
            match st.net.onDeliver e with
            | none => .panic
            | some net =>
              ofOption (processCommands sys e.dst cmds
                { st with net := net, actors := setActor st.actors e.dst ns, hist := hist.getD st.hist })
  | .timeout id t =>
    match st.actors[id]? with
    | none => .panic
    | some s =>
      match (sys.actor id).timeout id s t with
      | .panic => .panic
      | .ok ns cmds =>
        if isNoOpWithTimer ns cmds t then .ignored
        else
          match st.timers[id]? with
          | none => .panic
          | some ts =>
            ofOption (processCommands sys id cmds
              { st with timers := st.timers.set id (srem t ts), actors := setActor st.actors id ns })
  | .crash id =>
    match st.timers[id]?, st.random[id]?, st.crashed[id]? with
    | some _, some _, some _ =>
      .next { st with timers := st.timers.set id [], random := st.random.set id [],
                      crashed := st.crashed.set id true }
    | _, _, _ => .panic
  | .selectRandom id key r =>
    match st.actors[id]? with
    | none => .panic
    | some s =>
      match (sys.actor id).random id s r with
      | .panic => .panic
      | .ok ns cmds =>
        match st.random[id]? with
        | none => .panic
        | some m =>
          ofOption (processCommands sys id cmds
            { st with random := st.random.set id (aremove key m), actors := setActor st.actors id ns })

/-- the actor model as a `Sys` (plugs into the checker machine); `inB` = `within_boundary` -/
def ActorSys.toSys (sys : ActorSys σ η) (inB : St σ η → Bool := fun _ => true) : Sys (St σ η) Action where
  init := (init sys).toList
  acts := actions sys
  next := fun st a => (step sys st a).toOption
  inB := inB

end SR.Actor
