import SR.Actor.Sys
/-
Declarative reading of one actor-model transition (specification side of C06/C09), component by component.
`process_commands` interprets the command list in ONE loop touching four components; the specification
says what each component is on its own: the sends enter the network in emission order, the timer set is
the fold of the timer commands, the pending choices are the fold of the choice commands, the history is
the received message followed by the sends. `specStepB` evaluates that relation on a given successor
(used by the oracle on the implementation's outputs); `Props/C06.lean` proves `step` satisfies it.
-/
namespace SR.Actor

variable {σ η : Type}

/-- the event a handler is invoked with -/
inductive Event where
  | msg (src m : Nat)
  | timeout (t : Nat)
  | random (r : Nat)
deriving DecidableEq, Repr

/-- the actor whose handler an action invokes, and the event (Drop and Crash invoke nobody) -/
def eventOf : Action → Option (Nat × Event)
  | .deliver e => some (e.dst, .msg e.src e.msg)
  | .timeout i t => some (i, .timeout t)
  | .selectRandom i _ r => some (i, .random r)
  | .drop _ => none
  | .crash _ => none

/-- the action that invokes the handler of `i` on `ev` (`key` only matters for random selections) -/
def actionOf (i : Nat) (key : Nat) : Event → Action
  | .msg src m => .deliver ⟨src, i, m⟩
  | .timeout t => .timeout i t
  | .random r => .selectRandom i key r

/-- the handler of actor `i` applied to event `ev` in local state `s` -/
def handler (sys : ActorSys σ η) (i : Nat) (s : σ) : Event → HRes σ
  | .msg src m => (sys.actor i).msg i s src m
  | .timeout t => (sys.actor i).timeout i s t
  | .random r => (sys.actor i).random i s r

/-- the envelopes a command list sends, in emission order -/
def sendsOf (i : Nat) (cmds : List Cmd) : List Env :=
  cmds.filterMap (fun c => match c with | .send d m => some ⟨i, d, m⟩ | _ => none)

def applyTimerCmd (ts : List Nat) : Cmd → List Nat
  | .setTimer t => sins natLt t ts
  | .cancelTimer t => srem t ts
  | _ => ts

def applyRandomCmd (m : List (Nat × List Nat)) : Cmd → List (Nat × List Nat)
  | .chooseRandom k cs => if cs.isEmpty then aremove k m else ainsert natLt k cs m
  | _ => m

def sendAll (n : Net) (es : List Env) : Net := es.foldl Net.send n

def recordOuts (sys : ActorSys σ η) (h : η) (es : List Env) : η :=
  es.foldl (fun h e => (sys.recordOut h e).getD h) h

/-- the network after the action consumed its envelope (`none` = the code panics) -/
def consume (n : Net) : Action → Option Net
  | .deliver e => n.onDeliver e
  | .drop e => n.onDrop e
  | _ => some n

/-- the fired timer is consumed -/
def firedTimers (ts : List Nat) : Action → List Nat
  | .timeout _ t => srem t ts
  | _ => ts

/-- the selected choice (its whole key) is consumed -/
def selectedRandom (m : List (Nat × List Nat)) : Action → List (Nat × List Nat)
  | .selectRandom _ k _ => aremove k m
  | _ => m

/-- the received message is recorded first -/
def recordIn? (sys : ActorSys σ η) (h : η) : Action → η
  | .deliver e => (sys.recordIn h e).getD h
  | _ => h

/-- when does a handler action yield no transition -/
def ignoredBy (sys : ActorSys σ η) (ns : Option σ) (cmds : List Cmd) : Action → Bool
  | .deliver _ => isNoOp ns cmds && !sys.initNet.isOrdered
  | .timeout _ t => isNoOpWithTimer ns cmds t
  | _ => false

def isDeliver : Action → Bool
  | .deliver _ => true
  | _ => false

/-- the successor of a handler step, component by component; `none` if the code panics -/
def specNext (sys : ActorSys σ η) (st : St σ η) (a : Action) (i : Nat) (s : σ) (ns : Option σ) (cmds : List Cmd) :
    Option (St σ η) :=
  match consume st.net a, st.timers[i]?, st.random[i]? with
  | some net, some ts, some m =>
    some { actors := st.actors.set i (ns.getD s)
           net := sendAll net (sendsOf i cmds)
           timers := st.timers.set i (cmds.foldl applyTimerCmd (firedTimers ts a))
           random := st.random.set i (cmds.foldl applyRandomCmd (selectedRandom m a))
           crashed := st.crashed
           hist := recordOuts sys (recordIn? sys st.hist a) (sendsOf i cmds) }
  | _, _, _ => none

/-- a handler action: actor `i` handles `ev` -/
def specHandlerStep (sys : ActorSys σ η) (st : St σ η) (a : Action) (i : Nat) (ev : Event) : Outcome (St σ η) :=
  match st.actors[i]? with
  | none => if isDeliver a then .ignored else .panic         -- recipient does not exist
  | some s =>
    if st.crashed[i]? = some true && isDeliver a then .ignored else     -- deliveries to crashed actors are ignored
    match handler sys i s ev with
    | .panic => .panic
    | .ok ns cmds =>
      if ignoredBy sys ns cmds a then .ignored
      else ofOption (specNext sys st a i s ns cmds)

/-- the specification of `next_state` as a function of the state and the action (well-formed states:
all per-actor vectors have `sys.n` entries) -/
def specStep (sys : ActorSys σ η) (st : St σ η) (a : Action) : Outcome (St σ η) :=
  match a with
  | .drop e =>
    match st.net.onDrop e with
    | some net => .next { st with net := net }
    | none => .panic
  | .crash i =>
    if i < sys.n then
      .next { st with timers := st.timers.set i [], random := st.random.set i [], crashed := st.crashed.set i true }
    else .panic
  | a =>
    match eventOf a with
    | none => .panic
    | some (i, ev) => specHandlerStep sys st a i ev

/-- declarative initial state (C06_init): every actor is started, in index order; the commands of the
`on_start`s are applied per component -/
def specInit (sys : ActorSys σ η) : St σ η :=
  let starts := (List.range sys.n).map (fun i => (sys.actor i).start i)
  let sends := (List.range sys.n).flatMap (fun i => sendsOf i ((sys.actor i).start i).2)
  { actors := starts.map (·.1)
    net := sendAll sys.initNet sends
    timers := starts.map (fun p => p.2.foldl applyTimerCmd [])
    random := starts.map (fun p => p.2.foldl applyRandomCmd [])
    crashed := List.replicate sys.n false
    hist := recordOuts sys sys.initHist sends }

/-- declarative effect of a crash of actor `i` (C09_effect): the flag is set, its timers and pending choices
are discarded, nothing else changes -/
def crashOf (i : Nat) (st : St σ η) : St σ η :=
  { st with crashed := st.crashed.set i true, timers := st.timers.set i [], random := st.random.set i [] }

/-- the actor an action belongs to (Drop belongs to the network) -/
def actorOfAction : Action → Option Nat
  | .deliver e => some e.dst
  | .timeout i _ => some i
  | .selectRandom i _ _ => some i
  | .crash i => some i
  | .drop _ => none

def Outcome.map {α β : Type} (f : α → β) : Outcome α → Outcome β
  | .panic => .panic
  | .ignored => .ignored
  | .next s => .next (f s)

/-- all per-actor vectors have one entry per actor -/
def St.WF (sys : ActorSys σ η) (st : St σ η) : Prop :=
  st.actors.length = sys.n ∧ st.timers.length = sys.n ∧ st.random.length = sys.n ∧ st.crashed.length = sys.n

/-- declarative enabledness (right-hand side of `C06_actions_complete`) -/
def enabledSpec (sys : ActorSys σ η) (st : St σ η) : Action → Prop
  | .deliver e => e ∈ st.net.iterDeliverable ∧ e.dst < sys.n
  | .drop e => sys.lossy = true ∧ e ∈ st.net.iterDeliverable
  | .timeout i t => ∃ ts, st.timers[i]? = some ts ∧ t ∈ ts
  | .crash i => countCrashed st.crashed < sys.maxCrashes ∧ st.crashed[i]? = some false
  | .selectRandom i k r => ∃ m cs, st.random[i]? = some m ∧ (k, cs) ∈ m ∧ r ∈ cs

instance (sys : ActorSys σ η) (st : St σ η) (a : Action) : Decidable (enabledSpec sys st a) := by
  cases a <;> simp only [enabledSpec]
  · exact inferInstance
  · exact inferInstance
  · rename_i i t
    cases h : st.timers[i]? with
    | none => exact isFalse (by simp)
    | some ts => exact decidable_of_iff (t ∈ ts) (by simp)
  · exact inferInstance
  · rename_i i k r
    cases h : st.random[i]? with
    | none => exact isFalse (by simp)
    | some m =>
      exact decidable_of_iff (∃ kv ∈ m, kv.1 = k ∧ r ∈ kv.2) (by
        constructor
        · rintro ⟨⟨k', cs⟩, hm, rfl, hr⟩; exact ⟨m, cs, rfl, hm, hr⟩
        · rintro ⟨m', cs, hm', hm, hr⟩; cases hm'; exact ⟨(k, cs), hm, rfl, hr⟩)

end SR.Actor
