/-
S-expressions: the wire format of the line protocol between the Rust harness and the Lean
driver.  This is I/O glue (part of the trusted base of the correspondence check), not model code.
Atoms contain no whitespace and no parentheses.
-/
namespace SR

inductive SExp where
  | atom : String → SExp
  | list : List SExp → SExp
deriving Inhabited, BEq, Repr

namespace SExp

partial def toStr : SExp → String
  | atom s => s
  | list xs => "(" ++ " ".intercalate (xs.map toStr) ++ ")"

instance : ToString SExp := ⟨toStr⟩

/-- tokens: "(" , ")" or an atom -/
def tokenize (s : String) : List String :=
  let rec go (cs : List Char) (cur : List Char) (acc : List String) : List String :=
    let flush (acc : List String) := if cur.isEmpty then acc else (String.ofList cur.reverse) :: acc
    match cs with
    | [] => (flush acc).reverse
    | c :: cs =>
      if c == '(' then go cs [] ("(" :: flush acc)
      else if c == ')' then go cs [] (")" :: flush acc)
      else if c == ' ' || c == '\t' || c == '\n' || c == '\r' then go cs [] (flush acc)
      else go cs (c :: cur) acc
  go s.toList [] []

/-- parse one expression from a token list -/
partial def parseToks : List String → Option (SExp × List String)
  | [] => none
  | "(" :: rest =>
    let rec items (ts : List String) (acc : List SExp) : Option (List SExp × List String) :=
      match ts with
      | [] => none
      | ")" :: r => some (acc.reverse, r)
      | _ => match parseToks ts with
        | none => none
        | some (e, r) => items r (e :: acc)
    match items rest [] with
    | none => none
    | some (xs, r) => some (list xs, r)
  | ")" :: _ => none
  | a :: rest => some (atom a, rest)

/-- a whole line is parsed as the list of its top-level expressions -/
partial def parseLine (s : String) : Option (List SExp) :=
  let rec go (ts : List String) (acc : List SExp) : Option (List SExp) :=
    match ts with
    | [] => some acc.reverse
    | _ => match parseToks ts with
      | none => none
      | some (e, r) => go r (e :: acc)
  go (tokenize s) []

def nat? : SExp → Option Nat
  | atom s => s.toNat?
  | _ => none

def int? : SExp → Option Int
  | atom s => s.toInt?
  | _ => none

def str? : SExp → Option String
  | atom s => some s
  | _ => none

def bool? : SExp → Option Bool
  | atom "t" => some true
  | atom "f" => some false
  | atom "1" => some true
  | atom "0" => some false
  | _ => none

def list? : SExp → Option (List SExp)
  | list xs => some xs
  | _ => none

def listOf? {α} (f : SExp → Option α) : SExp → Option (List α)
  | list xs => xs.mapM f
  | _ => none

def nats? : SExp → Option (List Nat) := listOf? nat?

def pairOf? {α β} (f : SExp → Option α) (g : SExp → Option β) : SExp → Option (α × β)
  | list [a, b] => do pure (← f a, ← g b)
  | _ => none

def optOf? {α} (f : SExp → Option α) : SExp → Option (Option α)
  | atom "none" => some none
  | list [atom "some", x] => (f x).map some
  | _ => none

def ofNat (n : Nat) : SExp := atom (toString n)
def ofInt (n : Int) : SExp := atom (toString n)
def ofBool (b : Bool) : SExp := atom (if b then "t" else "f")
def ofNats (ns : List Nat) : SExp := list (ns.map ofNat)
def ofList {α} (f : α → SExp) (xs : List α) : SExp := list (xs.map f)
def ofOpt {α} (f : α → SExp) : Option α → SExp
  | none => atom "none"
  | some x => list [atom "some", f x]
def ofPair {α β} (f : α → SExp) (g : β → SExp) (p : α × β) : SExp := list [f p.1, g p.2]

end SExp
end SR
