import SR.SExp
import SR.Hash.Univ
/-! Wire format of the hashable universe (I/O glue of the C04/C10 drivers, trusted base of the
correspondence): type codes, values, token lists and the graph of the inner hasher `h`. -/
namespace SR.Hash
open SR

partial def decodeTy : SExp → Option Ty
  | .atom "unit" => some .unit
  | .atom "bool" => some .bool
  | .atom "u8" => some .u8
  | .atom "u32" => some .u32
  | .atom "u64" => some .u64
  | .atom "usize" => some .usize
  | .atom "id" => some .id
  | .atom "str" => some .str
  | .atom "vclock" => some .vclock
  | .list [.atom "tup", a, b] => do pure (.tup (← decodeTy a) (← decodeTy b))
  | .list [.atom "enum2", a, b] => do pure (.enum2 (← decodeTy a) (← decodeTy b))
  | .list [.atom "enum3", a, b, c] => do pure (.enum3 (← decodeTy a) (← decodeTy b) (← decodeTy c))
  | .list [.atom "arc", t] => do pure (.arc (← decodeTy t))
  | .list [.atom "vec", t] => do pure (.vec (← decodeTy t))
  | .list [.atom "deque", t] => do pure (.deque (← decodeTy t))
  | .list [.atom "bset", t] => do pure (.bset (← decodeTy t))
  | .list [.atom "hset", t] => do pure (.hset (← decodeTy t))
  | .list [.atom "bmap", k, v] => do pure (.bmap (← decodeTy k) (← decodeTy v))
  | .list [.atom "hmap", k, v] => do pure (.hmap (← decodeTy k) (← decodeTy v))
  | .list [.atom "choices", r] => do pure (.choices (← decodeTy r))
  -- shorthands for the derived codes
  | .list [.atom "opt", t] => do pure (Ty.opt (← decodeTy t))
  | .list [.atom "timers", t] => do pure (Ty.timers (← decodeTy t))
  | .list [.atom "dnm", t] => do pure (Ty.dnm (← decodeTy t))
  | .list [.atom "env", m] => do pure (Ty.env (← decodeTy m))
  | .list [.atom "net", m] => do pure (Ty.net (← decodeTy m))
  | .list [.atom "cmap", r] => do pure (Ty.choiceMap (← decodeTy r))
  | .list [.atom "state", s, m, t, r, h] => do
    pure (Ty.state (← decodeTy s) (← decodeTy m) (← decodeTy t) (← decodeTy r) (← decodeTy h))
  | .list [.atom "lin", t, o, op, ret] => do
    pure (Ty.linTester (← decodeTy t) (← decodeTy o) (← decodeTy op) (← decodeTy ret))
  | .list [.atom "sc", t, o, op, ret] => do
    pure (Ty.scTester (← decodeTy t) (← decodeTy o) (← decodeTy op) (← decodeTy ret))
  | _ => none

def decodeVal : (τ : Ty) → SExp → Option (Val τ)
  | .unit, _ => some ()
  | .bool, e => e.bool?
  | .u8, e | .u32, e | .u64, e | .usize, e | .id, e => e.nat?
  | .str, e => e.nats?
  | .vclock, e => e.nats?
  | .arc t, e => decodeVal t e
  | .tup a b, .list [x, y] => do
    let x ← decodeVal a x; let y ← decodeVal b y
    pure (x, y)
  | .tup _ _, _ => none
  | .enum2 a _, .list [.atom "0", x] => (decodeVal a x).map Sum.inl
  | .enum2 _ b, .list [.atom "1", x] => (decodeVal b x).map Sum.inr
  | .enum2 _ _, _ => none
  | .enum3 a _ _, .list [.atom "0", x] => (decodeVal a x).map Sum.inl
  | .enum3 _ b _, .list [.atom "1", x] => (decodeVal b x).map (Sum.inr ∘ Sum.inl)
  | .enum3 _ _ c, .list [.atom "2", x] => (decodeVal c x).map (Sum.inr ∘ Sum.inr)
  | .enum3 _ _ _, _ => none
  | .vec t, e | .deque t, e | .bset t, e | .hset t, e => e.listOf? (decodeVal t)
  | .bmap k v, e | .hmap k v, e => e.listOf? (SExp.pairOf? (decodeVal k) (decodeVal v))
  | .choices r, e =>
    e.listOf? (SExp.listOf? (SExp.pairOf? SExp.nats? (SExp.listOf? (decodeVal r))))

def natsStr (l : List Nat) : String := "(" ++ " ".intercalate (l.map toString) ++ ")"
def listStr (l : List String) : String := "(" ++ " ".intercalate l ++ ")"

/-- inverse of `decodeVal` (hash-table collections in the model's list order) -/
def encodeVal : (τ : Ty) → Val τ → String
  | .unit, _ => "u"
  | .bool, b => cond b "t" "f"
  | .u8, n | .u32, n | .u64, n | .usize, n | .id, n => Nat.repr n
  | .str, s => natsStr s
  | .vclock, c => natsStr c
  | .arc t, x => encodeVal t x
  | .tup a b, x => "(" ++ encodeVal a x.1 ++ " " ++ encodeVal b x.2 ++ ")"
  | .enum2 a _, .inl x => "(0 " ++ encodeVal a x ++ ")"
  | .enum2 _ b, .inr y => "(1 " ++ encodeVal b y ++ ")"
  | .enum3 a _ _, .inl x => "(0 " ++ encodeVal a x ++ ")"
  | .enum3 _ b _, .inr (.inl y) => "(1 " ++ encodeVal b y ++ ")"
  | .enum3 _ _ c, .inr (.inr z) => "(2 " ++ encodeVal c z ++ ")"
  | .vec t, l | .deque t, l | .bset t, l | .hset t, l => listStr (l.map (encodeVal t))
  | .bmap k v, l | .hmap k v, l =>
    listStr (l.map fun p => "(" ++ encodeVal k p.1 ++ " " ++ encodeVal v p.2 ++ ")")
  | .choices r, l =>
    listStr (l.map fun m => listStr (m.map fun p => "(" ++ natsStr p.1 ++ " " ++ listStr (p.2.map (encodeVal r)) ++ ")"))

def decodeTok : SExp → Option Tok
  | .list [.atom "u8", n] => n.nat?.map .u8
  | .list [.atom "u32", n] => n.nat?.map .u32
  | .list [.atom "u64", n] => n.nat?.map .u64
  | .list [.atom "usize", n] => n.nat?.map .usize
  | .list [.atom "isize", n] => n.nat?.map .isize
  | .list (.atom "bytes" :: bs) => (bs.mapM SExp.nat?).map .bytes
  | _ => none

/-- the inner hasher as given by its graph on the relevant streams (0 elsewhere) -/
def hOfGraph (g : List (List Tok × Nat)) (s : List Tok) : UInt64 :=
  match g.lookup s with
  | some n => UInt64.ofNat n
  | none => 0

def decodeGraph (e : SExp) : Option (List (List Tok × Nat)) :=
  e.listOf? (SExp.pairOf? (SExp.listOf? decodeTok) SExp.nat?)

end SR.Hash
