/-
What a `std::hash::Hasher` is fed: the sequence of `write_*` calls ("tokens") and the flat byte
stream those calls amount to (little-endian, `usize`/`isize` = 8 bytes: x86_64).  The tokens are
what the recording hasher of the harness (harness/src/rec.rs) logs; the flat bytes are what any
byte-oriented hasher ultimately consumes, and what the C04 injectivity theorems are stated on
(a `write_usize` and a `write_u64` are indistinguishable there).
-/
namespace SR.Hash

inductive Tok where
  | u8 (n : Nat) | u32 (n : Nat) | u64 (n : Nat) | usize (n : Nat) | isize (n : Nat)
  | bytes (bs : List Nat)
deriving Repr, DecidableEq, Inhabited

/-- `w` little-endian bytes of `n` (`to_le_bytes`) -/
def le : Nat → Nat → List Nat
  | 0, _ => []
  | w + 1, n => n % 256 :: le w (n / 256)

def Tok.flat : Tok → List Nat
  | .u8 n => le 1 n
  | .u32 n => le 4 n
  | .u64 n => le 8 n
  | .usize n => le 8 n
  | .isize n => le 8 n
  | .bytes bs => bs

/-- the flat byte stream of a token list -/
def flat (ts : List Tok) : List Nat := ts.flatMap Tok.flat

def Tok.toStr : Tok → String
  | .u8 n => s!"(u8 {n})"
  | .u32 n => s!"(u32 {n})"
  | .u64 n => s!"(u64 {n})"
  | .usize n => s!"(usize {n})"
  | .isize n => s!"(isize {n})"
  | .bytes bs => "(bytes " ++ " ".intercalate (bs.map toString) ++ ")"

/-- same text as `srh::rec::toks_sx` -/
def toksStr (ts : List Tok) : String := "(" ++ " ".intercalate (ts.map Tok.toStr) ++ ")"

end SR.Hash
