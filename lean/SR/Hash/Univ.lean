import SR.Hash.Tok
import SR.Util.VClock
/-
The universe of Rust-shaped hashable values (DESIGN.md §4.5) and the token stream each value feeds
to a `Hasher`.  `Ty` is a type code, `Val τ` the values of that type, `toks h τ v` the `write_*`
calls `v.hash(state)` performs, as observed through the recording hasher:

* integers: one `write_<int>`; `bool`: `write_u8`; `Id` (newtype of `u64`): `write_u64`; `()`: nothing
* `String`/`str`: `write(bytes); write_u8(0xff)`
* tuples / structs (derive): the fields in order; newtypes (`Timers`, `Register`, `Arc`, `Box`): the field
* derived enums (also `Option`): `write_isize(discriminant)` then the variant's fields
* `Vec<T>`, slices, `DenseNatMap` (derive over `values: Vec<V>` + `PhantomData`): `write_usize(len)` then
  the elements; for `T` a primitive integer the elements are ONE `write(bytes)` block (`hash_slice`)
* `VecDeque`, `BTreeMap`, `BTreeSet`: `write_usize(len)` then element by element (never a block)
* `HashableHashSet` / `HashableHashMap` (util.rs, after fix F2): `write_usize(len)` then the SORTED
  `u64` hashes of the elements, each computed by a fresh inner stable hasher fed the element's
  (`k` then `v`) stream — the inner hasher is the parameter `h`
* `VectorClock`: the `[u32]` slice without trailing zeros
* `ActorModelState` (model_state.rs, after fix F1): actor_states, history, timers_set, network, crashed,
  then `write_usize(#actors with a non-empty choice map)` and `(index, map)` for each of those.

Collections backed by a hash table are lists in iteration order (arbitrary, no duplicates);
`BTreeMap`/`BTreeSet` are their entry lists in key order.
-/
namespace SR.Hash

inductive Ty where
  | unit | bool | u8 | u32 | u64 | usize | id | str
  /-- `Arc<T>` / `Box<T>`: hashes as `T`, but a slice of them is never one byte block -/
  | arc (t : Ty)
  | tup (a b : Ty)
  | enum2 (a b : Ty)
  | enum3 (a b c : Ty)
  | vec (t : Ty)
  | deque (t : Ty)
  | bmap (k v : Ty)
  | bset (t : Ty)
  | hset (t : Ty)
  | hmap (k v : Ty)
  | vclock
  /-- `random_choices: Vec<RandomChoices<R>>` as hashed by `ActorModelState` -/
  | choices (r : Ty)
deriving Repr, DecidableEq, Inhabited

namespace Ty
/-- `Option<T>`: `None` = variant 0 without fields, `Some(T)` = variant 1 -/
abbrev opt (t : Ty) : Ty := .enum2 .unit t
/-- `Timers<T>(HashableHashSet<T>)`, derive(Hash) -/
abbrev timers (t : Ty) : Ty := .hset t
/-- `DenseNatMap<K,V>{values: Vec<V>, PhantomData}`, derive(Hash) -/
abbrev dnm (v : Ty) : Ty := .vec v
/-- `Envelope<Msg>{src, dst, msg}`, derive(Hash) -/
abbrev env (m : Ty) : Ty := .tup .id (.tup .id m)
/-- `Network<Msg>`: UnorderedDuplicating(set, last) | UnorderedNonDuplicating(multiset) | Ordered(flows) -/
abbrev net (m : Ty) : Ty :=
  .enum3 (.tup (.hset (env m)) (opt (env m))) (.hmap (env m) .usize) (.bmap (.tup .id .id) (.deque m))
/-- one actor's `RandomChoices<R>.map : HashableHashMap<String, Vec<R>>` -/
abbrev choiceMap (r : Ty) : Ty := .hmap .str (.vec r)
/-- `ActorModelState<A,H>` in the order its manual `Hash` visits the fields (`actor_states: Vec<Arc<State>>`) -/
abbrev state (s m t r hist : Ty) : Ty :=
  .tup (.vec (.arc s)) (.tup hist (.tup (.vec (timers t)) (.tup (net m) (.tup (.vec .bool) (.choices r)))))
/-- `LinearizabilityTester<T, RefObj>` (derive): init_ref_obj, history_by_thread, in_flight_by_thread, is_valid_history -/
abbrev linTester (tid obj op ret : Ty) : Ty :=
  .tup obj (.tup (.bmap tid (.deque (.tup (.bmap tid .usize) (.tup op ret))))
    (.tup (.bmap tid (.tup (.bmap tid .usize) op)) .bool))
/-- `SequentialConsistencyTester<T, RefObj>` (derive) -/
abbrev scTester (tid obj op ret : Ty) : Ty :=
  .tup obj (.tup (.bmap tid (.deque (.tup op ret))) (.tup (.bmap tid op) .bool))

/-- element types whose slices are hashed as one byte block (`Hash::hash_slice` of the primitive integers) -/
def isBlock : Ty → Bool
  | .u8 | .u32 | .u64 | .usize => true
  | _ => false
end Ty

def Val : Ty → Type
  | .unit => Unit
  | .bool => Bool
  | .u8 | .u32 | .u64 | .usize | .id => Nat
  | .str => List Nat
  | .arc t => Val t
  | .tup a b => Val a × Val b
  | .enum2 a b => Val a ⊕ Val b
  | .enum3 a b c => Val a ⊕ Val b ⊕ Val c
  | .vec t | .deque t | .bset t | .hset t => List (Val t)
  | .bmap k v | .hmap k v => List (Val k × Val v)
  | .vclock => List Nat
  | .choices r => List (List (List Nat × List (Val r)))

/-! ### stream builders (plain types, so that lemmas about them are not dependent) -/

/-- `str::hash` -/
def strToks (s : List Nat) : List Tok := [.bytes s, .u8 255]

/-- length-prefixed sequence; `block` = the elements are primitive integers of a slice/Vec -/
def seqToks (block : Bool) (ss : List (List Tok)) : List Tok :=
  .usize ss.length :: (if block then [.bytes (ss.flatMap flat)] else ss.flatten)

def leB (a b : Nat) : Bool := decide (a ≤ b)

/-- `HashableHashSet/Map::hash`: `ss` = the inner streams of the elements -/
def setToks (h : List Tok → UInt64) (ss : List (List Tok)) : List Tok :=
  .usize ss.length :: ((ss.map fun s => (h s).toNat).mergeSort leB).map .u64

/-- `ActorModelState::pending_random_choices`: (index, map) of the actors with a non-empty map -/
def pendingFrom {α} : Nat → List (List α) → List (Nat × List α)
  | _, [] => []
  | i, m :: ms => if m.isEmpty then pendingFrom (i + 1) ms else (i, m) :: pendingFrom (i + 1) ms

/-- the tail of `ActorModelState::hash`; `maps` = per actor the inner streams of its map entries -/
def choicesToks (h : List Tok → UInt64) (maps : List (List (List Tok))) : List Tok :=
  let pend := pendingFrom 0 maps
  .usize pend.length :: pend.flatMap fun p => .usize p.1 :: setToks h p.2

def discToks (d : Nat) (payload : List Tok) : List Tok := .isize d :: payload

/-- the `write_*` calls of `v.hash(state)` -/
def toks (h : List Tok → UInt64) : (τ : Ty) → Val τ → List Tok
  | .unit, _ => []
  | .bool, b => [.u8 (cond b 1 0)]
  | .u8, n => [.u8 n]
  | .u32, n => [.u32 n]
  | .u64, n => [.u64 n]
  | .usize, n => [.usize n]
  | .id, n => [.u64 n]
  | .str, s => strToks s
  | .arc t, x => toks h t x
  | .tup a b, x => toks h a x.1 ++ toks h b x.2
  | .enum2 a _, .inl x => discToks 0 (toks h a x)
  | .enum2 _ b, .inr y => discToks 1 (toks h b y)
  | .enum3 a _ _, .inl x => discToks 0 (toks h a x)
  | .enum3 _ b _, .inr (.inl y) => discToks 1 (toks h b y)
  | .enum3 _ _ c, .inr (.inr z) => discToks 2 (toks h c z)
  | .vec t, l => seqToks t.isBlock (l.map (toks h t))
  | .deque t, l => seqToks false (l.map (toks h t))
  | .bset t, l => seqToks false (l.map (toks h t))
  | .bmap k v, l => seqToks false (l.map fun p => toks h k p.1 ++ toks h v p.2)
  | .hset t, l => setToks h (l.map (toks h t))
  | .hmap k v, l => setToks h (l.map fun p => toks h k p.1 ++ toks h v p.2)
  | .vclock, c => seqToks true ((VClock.trim c).map fun x => [.u32 x])
  | .choices r, l =>
    choicesToks h (l.map fun m => m.map fun p => strToks p.1 ++ seqToks r.isBlock (p.2.map (toks h r)))

/-! ### semantic equality `≈τ` -/

def All2 {α β} (R : α → β → Prop) : List α → List β → Prop
  | [], [] => True
  | a :: as, b :: bs => R a b ∧ All2 R as bs
  | _, _ => False

/-- equal as multisets, elements compared by `R` -/
def PermBy {α} (R : α → α → Prop) (l1 l2 : List α) : Prop :=
  ∃ l1' l2', l1.Perm l1' ∧ l2.Perm l2' ∧ All2 R l1' l2'

/-- `a ≈τ b`: structural equality, except hash-table collections modulo iteration order, vector clocks
modulo trailing zeros, and random choices modulo actors without pending choices (padding). -/
def Equiv : (τ : Ty) → Val τ → Val τ → Prop
  | .unit, _, _ => True
  | .bool, a, b => @Eq Bool a b
  | .u8, a, b | .u32, a, b | .u64, a, b | .usize, a, b | .id, a, b => @Eq Nat a b
  | .str, a, b => @Eq (List Nat) a b
  | .arc t, x, y => Equiv t x y
  | .tup s t, x, y => Equiv s x.1 y.1 ∧ Equiv t x.2 y.2
  | .enum2 s _, .inl x, .inl y => Equiv s x y
  | .enum2 _ t, .inr x, .inr y => Equiv t x y
  | .enum2 _ _, _, _ => False
  | .enum3 s _ _, .inl x, .inl y => Equiv s x y
  | .enum3 _ t _, .inr (.inl x), .inr (.inl y) => Equiv t x y
  | .enum3 _ _ u, .inr (.inr x), .inr (.inr y) => Equiv u x y
  | .enum3 _ _ _, _, _ => False
  | .vec t, l1, l2 | .deque t, l1, l2 | .bset t, l1, l2 => All2 (Equiv t) l1 l2
  | .bmap k v, l1, l2 => All2 (fun p q => Equiv k p.1 q.1 ∧ Equiv v p.2 q.2) l1 l2
  | .hset t, l1, l2 => PermBy (Equiv t) l1 l2
  | .hmap k v, l1, l2 => PermBy (fun p q => Equiv k p.1 q.1 ∧ Equiv v p.2 q.2) l1 l2
  | .vclock, a, b => ∀ i, VClock.get0 a i = VClock.get0 b i
  | .choices r, l1, l2 =>
    All2 (fun p q => p.1 = q.1 ∧ PermBy (fun e f => e.1 = f.1 ∧ All2 (Equiv r) e.2 f.2) p.2 q.2)
      (pendingFrom 0 l1) (pendingFrom 0 l2)

/-! ### well-formedness: what Rust's types guarantee (integer ranges, `len < 2^64`, UTF-8 has no 0xff byte)
plus `P` holds of every inner stream that reaches the inner hasher `h` -/

def StrOk (s : List Nat) : Prop := ∀ b ∈ s, b < 255
def NatLt (k n : Nat) : Prop := n < 2 ^ k
def LenOk {α} (l : List α) : Prop := l.length < 2 ^ 64
def AllMem {α} (Q : α → Prop) (l : List α) : Prop := ∀ e ∈ l, Q e

def WF (h : List Tok → UInt64) (P : List Tok → Prop) : (τ : Ty) → Val τ → Prop
  | .unit, _ => True
  | .bool, _ => True
  | .u8, n => NatLt 8 n
  | .u32, n => NatLt 32 n
  | .u64, n | .usize, n | .id, n => NatLt 64 n
  | .str, s => StrOk s
  | .arc t, x => WF h P t x
  | .tup a b, x => WF h P a x.1 ∧ WF h P b x.2
  | .enum2 a _, .inl x => WF h P a x
  | .enum2 _ b, .inr y => WF h P b y
  | .enum3 a _ _, .inl x => WF h P a x
  | .enum3 _ b _, .inr (.inl y) => WF h P b y
  | .enum3 _ _ c, .inr (.inr z) => WF h P c z
  | .vec t, l | .deque t, l | .bset t, l => LenOk l ∧ AllMem (WF h P t) l
  | .bmap k v, l => LenOk l ∧ AllMem (fun (p : Val k × Val v) => WF h P k p.1 ∧ WF h P v p.2) l
  | .hset t, l => LenOk l ∧ AllMem (fun (e : Val t) => WF h P t e ∧ P (toks h t e)) l
  | .hmap k v, l =>
    LenOk l ∧ AllMem (fun (p : Val k × Val v) =>
      WF h P k p.1 ∧ WF h P v p.2 ∧ P (toks h k p.1 ++ toks h v p.2)) l
  | .vclock, c => LenOk c ∧ AllMem (NatLt 32) c
  | .choices r, l =>
    LenOk l ∧ AllMem (fun (m : List (List Nat × List (Val r))) => LenOk m ∧ AllMem (fun p =>
      StrOk p.1 ∧ LenOk p.2 ∧ AllMem (WF h P r) p.2 ∧
      P (strToks p.1 ++ seqToks r.isBlock (p.2.map (toks h r)))) m) l

/-- `h` does not collide on the streams satisfying `P` (the "bad luck" C04 excludes) -/
def InjOnP (h : List Tok → UInt64) (P : List Tok → Prop) : Prop :=
  ∀ s t, P s → P t → h s = h t → s = t

/-! ### executable decision of `≈τ` (the oracle side) -/

def all2B {α β} (r : α → β → Bool) : List α → List β → Bool
  | [], [] => true
  | a :: as, b :: bs => r a b && all2B r as bs
  | _, _ => false

/-- remove the first element satisfying `r` -/
def removeFirst {α} (r : α → Bool) : List α → Option (α × List α)
  | [] => none
  | b :: l => if r b then some (b, l) else (removeFirst r l).map fun p => (p.1, b :: p.2)

/-- multiset equality by removing the first partner of each element -/
def permByB {α} (r : α → α → Bool) : List α → List α → Bool
  | [], l2 => l2.isEmpty
  | a :: l1, l2 =>
    match removeFirst (r a) l2 with
    | none => false
    | some p => permByB r l1 p.2

/-- `VectorClock::eq` (model shared with C20) -/
def vcEqB (a b : List Nat) : Bool := VClock.veq a b

def natEqB (a b : Nat) : Bool := a == b
def boolEqB (a b : Bool) : Bool := a == b
def bytesEqB (a b : List Nat) : Bool := a == b
def pairB {α β} (r1 : α → α → Bool) (r2 : β → β → Bool) (p q : α × β) : Bool := r1 p.1 q.1 && r2 p.2 q.2
def pendB {α} (r : List α → List α → Bool) (p q : Nat × List α) : Bool := p.1 == q.1 && r p.2 q.2

def equivB : (τ : Ty) → Val τ → Val τ → Bool
  | .unit, _, _ => true
  | .bool, a, b => boolEqB a b
  | .u8, a, b | .u32, a, b | .u64, a, b | .usize, a, b | .id, a, b => natEqB a b
  | .str, a, b => bytesEqB a b
  | .arc t, x, y => equivB t x y
  | .tup s t, x, y => equivB s x.1 y.1 && equivB t x.2 y.2
  | .enum2 s _, .inl x, .inl y => equivB s x y
  | .enum2 _ t, .inr x, .inr y => equivB t x y
  | .enum2 _ _, _, _ => false
  | .enum3 s _ _, .inl x, .inl y => equivB s x y
  | .enum3 _ t _, .inr (.inl x), .inr (.inl y) => equivB t x y
  | .enum3 _ _ u, .inr (.inr x), .inr (.inr y) => equivB u x y
  | .enum3 _ _ _, _, _ => false
  | .vec t, l1, l2 | .deque t, l1, l2 | .bset t, l1, l2 => all2B (equivB t) l1 l2
  | .bmap k v, l1, l2 => all2B (pairB (equivB k) (equivB v)) l1 l2
  | .hset t, l1, l2 => permByB (equivB t) l1 l2
  | .hmap k v, l1, l2 => permByB (pairB (equivB k) (equivB v)) l1 l2
  | .vclock, a, b => vcEqB a b
  | .choices r, l1, l2 =>
    all2B (pendB (permByB (pairB bytesEqB (all2B (equivB r))))) (pendingFrom 0 l1) (pendingFrom 0 l2)

end SR.Hash
