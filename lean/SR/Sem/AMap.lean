/-!
`BTreeMap<Nat, β>` as an association list kept in key order (the order `BTreeMap::iter` visits).
Only the operations the testers use: `get`, `insert`/`entry().or_insert`, `remove`, `entry().or_default`.
-/
namespace SR.Sem.AMap
variable {β : Type}

/-- `BTreeMap::get` -/
def find? (k : Nat) : List (Nat × β) → Option β
  | [] => none
  | (k', v) :: r => if k' = k then some v else find? k r

/-- `BTreeMap::insert` (replace or insert at the key-ordered position) -/
def upsert (k : Nat) (v : β) : List (Nat × β) → List (Nat × β)
  | [] => [(k, v)]
  | (k', v') :: r =>
    if k < k' then (k, v) :: (k', v') :: r
    else if k = k' then (k, v) :: r
    else (k', v') :: upsert k v r

/-- `BTreeMap::remove` -/
def erase (k : Nat) : List (Nat × β) → List (Nat × β)
  | [] => []
  | (k', v') :: r => if k' = k then r else (k', v') :: erase k r

/-- `entry(k).or_insert(d)` (for `or_default`, `d` is the empty value) -/
def orInsert (k : Nat) (d : β) (m : List (Nat × β)) : List (Nat × β) :=
  match find? k m with
  | some _ => m
  | none => upsert k d m

def keys (m : List (Nat × β)) : List Nat := m.map (·.1)

end SR.Sem.AMap
