import SR.Sem.Lin
/-!
The declarative side: what it means for a list of `(op, ret)` pairs to be a linearization /
a sequentially consistent serialization of an event history. Nothing here refers to the testers.

An operation of a history is identified by `(t, i)`: the `i`-th invocation of thread `t`. In a
well-formed history the `i`-th return of thread `t` belongs to it. Real-time precedence is defined
on *event positions*: `a` precedes `b` iff `a`'s return event occurs before `b`'s invocation event.
-/
namespace SR.Sem
variable {S Op Ret : Type}

/-- positions and operations of the invocations of thread `t`, in history order -/
def invsOf (es : List (Event Op Ret)) (t : Nat) : List (Nat × Op) :=
  es.zipIdx.filterMap fun x =>
    match x.1 with
    | .inv t' op => if t' = t then some (x.2, op) else none
    | .ret _ _ => none

/-- positions and values of the returns of thread `t`, in history order -/
def retsOf (es : List (Event Op Ret)) (t : Nat) : List (Nat × Ret) :=
  es.zipIdx.filterMap fun x =>
    match x.1 with
    | .ret t' r => if t' = t then some (x.2, r) else none
    | .inv _ _ => none

/-- thread `t` has an operation in flight after `es` -/
def InFlightIn (es : List (Event Op Ret)) (t : Nat) : Prop :=
  (retsOf es t).length < (invsOf es t).length

/-- an event is admissible after the prefix `p`: an invocation only if the thread has nothing in
    flight, a return only if it has -/
def Admissible (p : List (Event Op Ret)) : Event Op Ret → Prop
  | .inv t _ => ¬ InFlightIn p t
  | .ret t _ => InFlightIn p t

/-- well-formed history: every event is admissible after the events before it -/
def WellFormed (es : List (Event Op Ret)) : Prop :=
  ∀ p e q, es = p ++ e :: q → Admissible p e

/-- operation identifiers -/
abbrev OpId := Nat × Nat

def opAt (es : List (Event Op Ret)) (a : OpId) : Option Op := ((invsOf es a.1)[a.2]?).map (·.2)
def retAt (es : List (Event Op Ret)) (a : OpId) : Option Ret := ((retsOf es a.1)[a.2]?).map (·.2)
def invPos (es : List (Event Op Ret)) (a : OpId) : Option Nat := ((invsOf es a.1)[a.2]?).map (·.1)
def retPos (es : List (Event Op Ret)) (a : OpId) : Option Nat := ((retsOf es a.1)[a.2]?).map (·.1)

/-- `a` is an operation of the history -/
def IsOp (es : List (Event Op Ret)) (a : OpId) : Prop := a.2 < (invsOf es a.1).length
/-- `a` is a completed operation of the history -/
def IsCompleted (es : List (Event Op Ret)) (a : OpId) : Prop := a.2 < (retsOf es a.1).length

/-- real-time precedence: `a` returned before `b` was invoked -/
def PrecedesRT (es : List (Event Op Ret)) (a b : OpId) : Prop :=
  ∃ q p, retPos es a = some q ∧ invPos es b = some p ∧ q < p

/-- program order: same thread, earlier operation -/
def ProgOrder (a b : OpId) : Prop := a.1 = b.1 ∧ a.2 < b.2

/-- the order a serialization has to respect (`rt = false`: program order only) -/
def MustPrecede (rt : Bool) (es : List (Event Op Ret)) (a b : OpId) : Prop :=
  ProgOrder a b ∨ (rt = true ∧ PrecedesRT es a b)

/-- `l` is the sequential execution of the operations `ids` from object `s`: the operations are
    those of the history, every return is what the object gives, and for a completed operation it
    is the return the history recorded -/
def Legal (spec : SeqSpec S Op Ret) (es : List (Event Op Ret)) : S → List OpId → List (Op × Ret) → Prop
  | _, [], [] => True
  | s, a :: ids, x :: l =>
    opAt es a = some x.1 ∧ (spec.invoke s x.1).2 = x.2 ∧ (∀ r, retAt es a = some r → r = x.2) ∧
    Legal spec es (spec.invoke s x.1).1 ids l
  | _, _, _ => False

/-- `ids` is a total order of all completed operations plus some in-flight ones that respects
    `MustPrecede` (no operation is placed before one that must precede it) and `l` is its legal
    sequential execution from `s0` -/
def IsSerializationOf (rt : Bool) (spec : SeqSpec S Op Ret) (s0 : S) (es : List (Event Op Ret))
    (ids : List OpId) (l : List (Op × Ret)) : Prop :=
  ids.Nodup ∧ (∀ a ∈ ids, IsOp es a) ∧ (∀ a, IsCompleted es a → a ∈ ids) ∧
  ids.Pairwise (fun a b => ¬ MustPrecede rt es b a) ∧ Legal spec es s0 ids l

def IsSerialization (rt : Bool) (spec : SeqSpec S Op Ret) (s0 : S) (es : List (Event Op Ret))
    (l : List (Op × Ret)) : Prop := ∃ ids, IsSerializationOf rt spec s0 es ids l

/-- linearization: program order and real-time precedence -/
def IsLinearization (spec : SeqSpec S Op Ret) (s0 : S) (es : List (Event Op Ret)) (l : List (Op × Ret)) : Prop :=
  IsSerialization true spec s0 es l

/-- sequentially consistent serialization: program order only -/
def IsSeqCons (spec : SeqSpec S Op Ret) (s0 : S) (es : List (Event Op Ret)) (l : List (Op × Ret)) : Prop :=
  IsSerialization false spec s0 es l

end SR.Sem
