import SR.Sem.SeqSpec
/-!
The crate's reference objects, transcribed with their hand-written `is_valid_step`:
`Register<T>` (semantics/register.rs), `WORegister<T>` (semantics/write_once_register.rs),
`Vec<T>` (semantics/vec.rs); plus a table-driven spec (finite tables sent by the harness) that stands
for "any other `SequentialSpec`" in the correspondence runs. Values are any type with decidable
equality (`T: Clone + PartialEq`).
-/
namespace SR.Sem
variable {V : Type} [DecidableEq V]

/-! ## Register -/
inductive RegOp (V : Type) where
  | write (v : V) | read
deriving DecidableEq, Repr
inductive RegRet (V : Type) where
  | writeOk | readOk (v : V)
deriving DecidableEq, Repr

def Register.invoke (s : V) : RegOp V → V × RegRet V
  | .write v => (v, .writeOk)
  | .read => (s, .readOk s)

/-- `(Write(v), WriteOk) => { self.0 = v; true }`, `(Read, ReadOk(v)) => self.0 == v`, `_ => false` -/
def Register.isValidStep (s : V) : RegOp V → RegRet V → Bool × V
  | .write v, .writeOk => (true, v)
  | .read, .readOk v => (decide (s = v), s)
  | _, _ => (false, s)

def register (V : Type) [DecidableEq V] : SeqSpec V (RegOp V) (RegRet V) :=
  { invoke := Register.invoke, isValidStep := Register.isValidStep }

/-! ## Write-once register -/
inductive WOOp (V : Type) where
  | write (v : V) | read
deriving DecidableEq, Repr
inductive WORet (V : Type) where
  | writeOk | writeFail | readOk (v : Option V)
deriving DecidableEq, Repr

def WORegister.invoke (s : Option V) : WOOp V → Option V × WORet V
  | .write v =>
    match s with
    | none => (some v, .writeOk)
    | some vp => if v = vp then (some v, .writeOk) else (some vp, .writeFail)
  | .read => (s, .readOk s)

def WORegister.isValidStep (s : Option V) : WOOp V → WORet V → Bool × Option V
  | .write v, .writeOk =>
    match s with
    | none => (true, some v)
    | some vp => if v = vp then (true, some vp) else (false, some vp)
  | .write v, .writeFail =>
    match s with
    | none => (false, none)
    | some vp => if v ≠ vp then (true, some vp) else (false, some vp)
  | .read, .readOk v => (decide (s = v), s)
  | _, _ => (false, s)

def woRegister (V : Type) [DecidableEq V] : SeqSpec (Option V) (WOOp V) (WORet V) :=
  { invoke := WORegister.invoke, isValidStep := WORegister.isValidStep }

/-! ## Vec (stack): the end of the list is the top -/
inductive VecOp (V : Type) where
  | push (v : V) | pop | len
deriving DecidableEq, Repr
inductive VecRet (V : Type) where
  | pushOk | popOk (v : Option V) | lenOk (n : Nat)
deriving DecidableEq, Repr

def Vec.invoke (s : List V) : VecOp V → List V × VecRet V
  | .push v => (s ++ [v], .pushOk)
  | .pop => (s.dropLast, .popOk s.getLast?)
  | .len => (s, .lenOk s.length)

/-- `(Pop, PopOk(v)) => &self.pop() == v` pops also when the comparison fails -/
def Vec.isValidStep (s : List V) : VecOp V → VecRet V → Bool × List V
  | .push v, .pushOk => (true, s ++ [v])
  | .pop, .popOk v => (decide (s.getLast? = v), s.dropLast)
  | .len, .lenOk l => (decide (s.length = l), s)
  | _, _ => (false, s)

def vec (V : Type) [DecidableEq V] : SeqSpec (List V) (VecOp V) (VecRet V) :=
  { invoke := Vec.invoke, isValidStep := Vec.isValidStep }

/-! ## Table-driven specs: states, operations and returns are numbers; `tbl[s][op] = (s', ret)`.
An entry outside the table behaves as a self-loop returning 0 (the Rust table spec does the same). -/
abbrev Table := List (List (Nat × Nat))

def Table.invoke (tbl : Table) (s op : Nat) : Nat × Nat :=
  match tbl[s]? with
  | none => (s, 0)
  | some row => match row[op]? with
    | none => (s, 0)
    | some e => e

/-- mode 0: `is_valid_step` not overridden (trait default); mode 1: an "optimised" override that
    compares first and only moves the object when the step is accepted. -/
def Table.isValidStep (tbl : Table) (mode : Nat) (s op r : Nat) : Bool × Nat :=
  if mode = 0 then SeqSpec.defaultStep (Table.invoke tbl) s op r
  else if (Table.invoke tbl s op).2 = r then (true, (Table.invoke tbl s op).1) else (false, s)

def tableSpec (tbl : Table) (mode : Nat) : SeqSpec Nat Nat Nat :=
  { invoke := Table.invoke tbl, isValidStep := Table.isValidStep tbl mode }

end SR.Sem
