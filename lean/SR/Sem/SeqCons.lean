import SR.Sem.Lin
/-!
`SequentialConsistencyTester` (src/semantics/sequential_consistency.rs), transcribed literally:
the linearizability tester without the last-completed maps and without the real-time test.
`embed` maps it into `Tester` (flag `rt = false`, all maps empty); `SR/Proofs/SemSC.lean` proves that
recording and searching commute with `embed`, so the theorems about `Tester false` carry over.
-/
namespace SR.Sem
open AMap

structure SCTester (S Op Ret : Type) where
  init : S
  hist : List (Nat × List (Op × Ret))
  inflight : List (Nat × Op)
  valid : Bool

namespace SCTester
variable {S Op Ret : Type}

def new (s : S) : SCTester S Op Ret := { init := s, hist := [], inflight := [], valid := true }

def len (T : SCTester S Op Ret) : Nat :=
  T.inflight.length + (T.hist.map fun e => e.2.length).sum

def onInvoke (T : SCTester S Op Ret) (t : Nat) (op : Op) : SCTester S Op Ret × Res :=
  if !T.valid then (T, .errEarlier)
  else match find? t T.inflight with
    | some _ => ({ T with valid := false }, .errInFlight)
    | none => ({ T with inflight := upsert t op T.inflight, hist := orInsert t [] T.hist }, .ok)

def onReturn (T : SCTester S Op Ret) (t : Nat) (r : Ret) : SCTester S Op Ret × Res :=
  if !T.valid then (T, .errEarlier)
  else match find? t T.inflight with
    | none => ({ T with valid := false, hist := orInsert t [] T.hist }, .errNoInFlight)
    | some op =>
      ({ T with inflight := erase t T.inflight,
                hist := upsert t ((find? t T.hist).getD [] ++ [(op, r)]) T.hist }, .ok)

def onInvRet (T : SCTester S Op Ret) (t : Nat) (op : Op) (r : Ret) : SCTester S Op Ret × Res :=
  match onInvoke T t op with
  | (T', .ok) => onReturn T' t r
  | (T', e) => (T', e)

def step (T : SCTester S Op Ret) : Event Op Ret → SCTester S Op Ret × Res
  | .inv t op => onInvoke T t op
  | .ret t r => onReturn T t r

def record (s0 : S) (es : List (Event Op Ret)) : SCTester S Op Ret :=
  es.foldl (fun T e => (step T e).1) (new s0)

def results : SCTester S Op Ret → List (Event Op Ret) → List Res
  | _, [] => []
  | T, e :: es => (step T e).2 :: results (step T e).1 es

abbrev Queues (Op Ret : Type) := List (Nat × List (Op × Ret))

/-- loop body for one `(thread_id, remaining_history)`; `none` = `continue` -/
def branch (spec : SeqSpec S Op Ret) (obj : S) (Q : Queues Op Ret) (F : List (Nat × Op))
    (t : Nat) (rem : List (Op × Ret)) : Option (S × Queues Op Ret × List (Nat × Op) × (Op × Ret)) :=
  match rem with
  | [] =>
    match find? t F with
    | none => none
    | some op => some ((spec.invoke obj op).1, Q, erase t F, (op, (spec.invoke obj op).2))
  | (op, ret) :: rest =>
    if (spec.isValidStep obj op ret).1 then
      some ((spec.isValidStep obj op ret).2, upsert t rest Q, F, (op, ret))
    else none

def tryThreads (spec : SeqSpec S Op Ret)
    (rec : List (Op × Ret) → S → Queues Op Ret → List (Nat × Op) → Option (List (Op × Ret)))
    (acc : List (Op × Ret)) (obj : S) (Q : Queues Op Ret) (F : List (Nat × Op)) :
    List (Nat × List (Op × Ret)) → Option (List (Op × Ret))
  | [] => none
  | (t, rem) :: rest =>
    match branch spec obj Q F t rem with
    | none => tryThreads spec rec acc obj Q F rest
    | some (obj', Q', F', x) =>
      match rec (acc ++ [x]) obj' Q' F' with
      | some h => some h
      | none => tryThreads spec rec acc obj Q F rest

def serialize (spec : SeqSpec S Op Ret) : Nat → List (Op × Ret) → S → Queues Op Ret → List (Nat × Op) →
    Option (List (Op × Ret))
  | 0, _, _, _, _ => none
  | fuel + 1, acc, obj, Q, F =>
    if Q.all (fun e => e.2.isEmpty) then some acc
    else tryThreads spec (serialize spec fuel) acc obj Q F Q

def serializedHistory (spec : SeqSpec S Op Ret) (T : SCTester S Op Ret) : Option (List (Op × Ret)) :=
  if !T.valid then none
  else serialize spec (T.len + 1) [] T.init T.hist T.inflight

def isConsistent (spec : SeqSpec S Op Ret) (T : SCTester S Op Ret) : Bool :=
  (serializedHistory spec T).isSome

/-- the same tester seen as a `Tester` whose last-completed maps are all empty -/
def embed (T : SCTester S Op Ret) : Tester S Op Ret :=
  { init := T.init,
    hist := T.hist.map fun e => (e.1, e.2.map fun x => (([] : LC), x.1, x.2)),
    inflight := T.inflight.map fun e => (e.1, (([] : LC), e.2)),
    valid := T.valid }

end SCTester
end SR.Sem
