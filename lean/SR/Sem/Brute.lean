import SR.Sem.Spec
/-!
Brute-force oracle for the declarative definitions of `Spec.lean`, independent of the testers'
bookkeeping and search: operations are identified by `(thread, index)`, precedence is read off event
positions, and the definition is tested on every subset of the in-flight operations and every
permutation (`brutePlain`), or — same enumeration, pruned as soon as a prefix is already illegal —
`bruteDfs` for the bigger histories.
-/
namespace SR.Sem
variable {S Op Ret : Type}

def eventThread : Event Op Ret → Nat
  | .inv t _ => t
  | .ret t _ => t

/-- the threads of a history, without duplicates, ascending -/
def threadsOf (es : List (Event Op Ret)) : List Nat :=
  (es.map eventThread).foldl (fun acc t => if acc.contains t then acc else acc ++ [t]) []

/-- executable well-formedness: scan with the set of threads that have an operation in flight -/
def wfFrom : List Nat → List (Event Op Ret) → Bool
  | _, [] => true
  | fl, .inv t _ :: es => !fl.contains t && wfFrom (t :: fl) es
  | fl, .ret t _ :: es => fl.contains t && wfFrom (fl.erase t) es

def wfB (es : List (Event Op Ret)) : Bool := wfFrom [] es

/-- index of the first inadmissible event and whether it is an invocation -/
def firstIllFormedFrom : List Nat → Nat → List (Event Op Ret) → Option (Nat × Bool)
  | _, _, [] => none
  | fl, n, .inv t _ :: es => if fl.contains t then some (n, true) else firstIllFormedFrom (t :: fl) (n + 1) es
  | fl, n, .ret t _ :: es => if fl.contains t then firstIllFormedFrom (fl.erase t) (n + 1) es else some (n, false)

def firstIllFormed (es : List (Event Op Ret)) : Option (Nat × Bool) := firstIllFormedFrom [] 0 es

def completedIds (es : List (Event Op Ret)) : List OpId :=
  (threadsOf es).flatMap fun t => (List.range (retsOf es t).length).map fun i => (t, i)

/-- operations invoked but not returned (in a well-formed history: at most one per thread) -/
def inflightIds (es : List (Event Op Ret)) : List OpId :=
  (threadsOf es).flatMap fun t =>
    (List.range ((invsOf es t).length - (retsOf es t).length)).map fun i => (t, (retsOf es t).length + i)

def precedesRTB (es : List (Event Op Ret)) (a b : OpId) : Bool :=
  match retPos es a, invPos es b with
  | some q, some p => decide (q < p)
  | _, _ => false

def mustPrecedeB (rt : Bool) (es : List (Event Op Ret)) (a b : OpId) : Bool :=
  (a.1 == b.1 && decide (a.2 < b.2)) || (rt && precedesRTB es a b)

def pairwiseB {α : Type} (R : α → α → Bool) : List α → Bool
  | [] => true
  | a :: l => l.all (R a) && pairwiseB R l

def nodupB {α : Type} [BEq α] : List α → Bool
  | [] => true
  | a :: l => !l.contains a && nodupB l

def legalB [DecidableEq Op] [DecidableEq Ret] (spec : SeqSpec S Op Ret) (es : List (Event Op Ret)) :
    S → List OpId → List (Op × Ret) → Bool
  | _, [], [] => true
  | s, a :: ids, x :: l =>
    decide (opAt es a = some x.1) && decide ((spec.invoke s x.1).2 = x.2) &&
    (match retAt es a with | some r => decide (r = x.2) | none => true) &&
    legalB spec es (spec.invoke s x.1).1 ids l
  | _, _, _ => false

/-- the definition `IsSerializationOf`, executable -/
def checkSer [DecidableEq Op] [DecidableEq Ret] (rt : Bool) (spec : SeqSpec S Op Ret) (s0 : S)
    (es : List (Event Op Ret)) (ids : List OpId) (l : List (Op × Ret)) : Bool :=
  nodupB ids && ids.all (fun a => decide (a.2 < (invsOf es a.1).length)) &&
  (completedIds es).all (fun a => ids.contains a) &&
  pairwiseB (fun a b => !mustPrecedeB rt es b a) ids && legalB spec es s0 ids l

/-- the execution of `ids` from `s`, if every operation exists (returns are what the object gives) -/
def execIds (spec : SeqSpec S Op Ret) (es : List (Event Op Ret)) : S → List OpId → Option (List (Op × Ret))
  | _, [] => some []
  | s, a :: ids =>
    match opAt es a with
    | none => none
    | some op => (execIds spec es (spec.invoke s op).1 ids).map fun l => (op, (spec.invoke s op).2) :: l

def sublistsOf {α : Type} : List α → List (List α)
  | [] => [[]]
  | a :: l => (sublistsOf l).flatMap fun s => [s, a :: s]

def insertions {α : Type} (a : α) : List α → List (List α)
  | [] => [[a]]
  | b :: l => (a :: b :: l) :: (insertions a l).map (b :: ·)

def permsOf {α : Type} : List α → List (List α)
  | [] => [[]]
  | a :: l => (permsOf l).flatMap (insertions a)

/-- every subset of the in-flight operations, every permutation, the definition tested literally;
    returns all witnesses `(ids, l)` -/
def brutePlainAll [DecidableEq Op] [DecidableEq Ret] (rt : Bool) (spec : SeqSpec S Op Ret) (s0 : S)
    (es : List (Event Op Ret)) : List (List OpId × List (Op × Ret)) :=
  (sublistsOf (inflightIds es)).flatMap fun sub =>
    (permsOf (completedIds es ++ sub)).filterMap fun ids =>
      match execIds spec es s0 ids with
      | none => none
      | some l => if checkSer rt spec s0 es ids l then some (ids, l) else none

def brutePlain [DecidableEq Op] [DecidableEq Ret] (rt : Bool) (spec : SeqSpec S Op Ret) (s0 : S)
    (es : List (Event Op Ret)) : Bool :=
  wfB es && !(brutePlainAll rt spec s0 es).isEmpty

/-- pruned enumeration of the permutations of `rem` (fuel = number of operations): the next
    operation may be any remaining one that no other remaining one must precede and whose recorded
    return (if completed) is what the object gives. `want`: optionally the labels to be produced. -/
def dfsPerm [DecidableEq Op] [DecidableEq Ret] (rt : Bool) (spec : SeqSpec S Op Ret) (es : List (Event Op Ret)) :
    Nat → S → List OpId → Option (List (Op × Ret)) → List OpId → Option (List OpId)
  | 0, _, rem, want, acc =>
    if rem.isEmpty then (match want with | some (_ :: _) => none | _ => some acc.reverse) else none
  | fuel + 1, s, rem, want, acc =>
    if rem.isEmpty then (match want with | some (_ :: _) => none | _ => some acc.reverse)
    else rem.findSome? fun a =>
      if rem.any (fun b => b != a && mustPrecedeB rt es b a) then none
      else match opAt es a with
        | none => none
        | some op =>
          let r := (spec.invoke s op).2
          let okRet := match retAt es a with | some r' => decide (r' = r) | none => true
          let okWant := match want with
            | none => true
            | some [] => false
            | some (x :: _) => decide (x = (op, r))
          if okRet && okWant then
            dfsPerm rt spec es fuel (spec.invoke s op).1 (rem.filter (· != a)) (want.map List.tail) (a :: acc)
          else none

/-- some serialization (with labels `want` if given), found by the pruned enumeration -/
def bruteDfs [DecidableEq Op] [DecidableEq Ret] (rt : Bool) (spec : SeqSpec S Op Ret) (s0 : S)
    (es : List (Event Op Ret)) (want : Option (List (Op × Ret))) : Option (List OpId) :=
  if !wfB es then none
  else (sublistsOf (inflightIds es)).findSome? fun sub =>
    let rem := completedIds es ++ sub
    dfsPerm rt spec es rem.length s0 rem want []

end SR.Sem
