import SR.Sem.AMap
import SR.Sem.SeqSpec
/-!
`LinearizabilityTester` (src/semantics/linearizability.rs), transcribed.

* thread ids are `Nat` (any `Ord` type in the code; only the order matters: `BTreeMap` iteration);
* `history_by_thread : BTreeMap<T, VecDeque<(LastCompletedOpMap, Op, Ret)>>`,
  `in_flight_by_thread : BTreeMap<T, (LastCompletedOpMap, Op)>` are key-ordered association lists;
* `on_invoke` / `on_return` return the new tester and the result class (`Ok` / which `Err`);
* `serialize` is the code's backtracking search in the code's order: threads in key order; for a
  thread whose remaining queue is empty its in-flight operation (case 1), otherwise the head of its
  queue (case 2); first success wins. Recursion depth is bounded by `fuel` (each level consumes one
  operation, `serializedHistory` passes `len + 1`).

The definitions take a flag `rt`. `rt = true` is this file's subject, the linearizability tester.
With `rt = false` the recorded last-completed map is always empty and the real-time test is
vacuous: that is the sequential-consistency tester up to the (then empty) map component, see
`SeqCons.lean`, which transcribes sequential_consistency.rs literally and proves the embedding.
-/
namespace SR.Sem
open AMap

/-- history events: `on_invoke(t, op)`, `on_return(t, r)` -/
inductive Event (Op Ret : Type) where
  | inv (t : Nat) (op : Op)
  | ret (t : Nat) (r : Ret)
deriving Repr, DecidableEq

/-- result classes of `on_invoke` / `on_return` -/
inductive Res where
  | ok
  | errEarlier      -- "Earlier history was invalid."
  | errInFlight     -- "Thread already has an operation in flight. ..."
  | errNoInFlight   -- "There is no in-flight invocation for this thread ID. ..."
deriving Repr, DecidableEq

/-- `LastCompletedOpMap<ThreadId> = BTreeMap<ThreadId, usize>` -/
abbrev LC := List (Nat × Nat)

structure Tester (S Op Ret : Type) where
  init : S
  hist : List (Nat × List (LC × Op × Ret))
  inflight : List (Nat × (LC × Op))
  valid : Bool

namespace Tester
variable {S Op Ret : Type}

def new (s : S) : Tester S Op Ret := { init := s, hist := [], inflight := [], valid := true }

/-- `len`: in-flight operations + completed operations -/
def len (T : Tester S Op Ret) : Nat :=
  T.inflight.length + (T.hist.map fun e => e.2.length).sum

/-- the `last_completed` map built by `on_invoke`: for every *other* thread with at least one
    completed operation, the index of its last completed operation -/
def lastCompleted (rt : Bool) (hist : List (Nat × List (LC × Op × Ret))) (t : Nat) : LC :=
  if rt then
    hist.filterMap (fun e => if e.1 = t ∨ e.2.isEmpty then none else some (e.1, e.2.length - 1))
  else []

def onInvoke (rt : Bool) (T : Tester S Op Ret) (t : Nat) (op : Op) : Tester S Op Ret × Res :=
  if !T.valid then (T, .errEarlier)
  else match find? t T.inflight with
    | some _ => ({ T with valid := false }, .errInFlight)
    | none =>
      ({ T with inflight := upsert t (lastCompleted rt T.hist t, op) T.inflight,
                hist := orInsert t [] T.hist }, .ok)

def onReturn (T : Tester S Op Ret) (t : Nat) (r : Ret) : Tester S Op Ret × Res :=
  if !T.valid then (T, .errEarlier)
  else match find? t T.inflight with
    | none =>
      -- the error message evaluates `history_by_thread.entry(thread_id).or_default()`
      ({ T with valid := false, hist := orInsert t [] T.hist }, .errNoInFlight)
    | some (lc, op) =>
      ({ T with inflight := erase t T.inflight,
                hist := upsert t ((find? t T.hist).getD [] ++ [(lc, op, r)]) T.hist }, .ok)

/-- `on_invret`: `self.on_invoke(t, op)?.on_return(t, ret)` -/
def onInvRet (rt : Bool) (T : Tester S Op Ret) (t : Nat) (op : Op) (r : Ret) : Tester S Op Ret × Res :=
  match onInvoke rt T t op with
  | (T', .ok) => onReturn T' t r
  | (T', e) => (T', e)

def step (rt : Bool) (T : Tester S Op Ret) : Event Op Ret → Tester S Op Ret × Res
  | .inv t op => onInvoke rt T t op
  | .ret t r => onReturn T t r

/-- the tester after recording `es` from a fresh tester (results ignored, as `let _ = ...` does) -/
def record (rt : Bool) (s0 : S) (es : List (Event Op Ret)) : Tester S Op Ret :=
  es.foldl (fun T e => (step rt T e).1) (new s0)

/-- the result classes of the successive calls -/
def results (rt : Bool) : Tester S Op Ret → List (Event Op Ret) → List Res
  | _, [] => []
  | T, e :: es => (step rt T e).2 :: results rt (step rt T e).1 es

/-! ### the search -/

/-- a queue entry of `remaining_history_by_thread`: `(index, (last_completed, op, ret))` -/
abbrev Item (Op Ret : Type) := Nat × (LC × Op × Ret)
abbrev Queues (Op Ret : Type) := List (Nat × List (Item Op Ret))
abbrev InFlights (Op : Type) := List (Nat × (LC × Op))

/-- the real-time test: some peer still has an operation queued whose index is `≤` the recorded
    last-completed index of that peer -/
def violation (lc : LC) (Q : Queues Op Ret) : Bool :=
  lc.any fun pm =>
    match find? pm.1 Q with
    | some (it :: _) => decide (it.1 ≤ pm.2)
    | _ => false

/-- the body of the `for` loop for one `(thread_id, remaining_history)`; `none` = `continue` -/
def branch (spec : SeqSpec S Op Ret) (obj : S) (Q : Queues Op Ret) (F : InFlights Op)
    (t : Nat) (rem : List (Item Op Ret)) : Option (S × Queues Op Ret × InFlights Op × (Op × Ret)) :=
  match rem with
  | [] =>
    match find? t F with
    | none => none
    | some (lc, op) =>
      if violation lc Q then none
      else some ((spec.invoke obj op).1, Q, erase t F, (op, (spec.invoke obj op).2))
  | (_, (lc, op, ret)) :: rest =>
    let Q' := upsert t rest Q
    if violation lc Q' then none
    else if (spec.isValidStep obj op ret).1 then some ((spec.isValidStep obj op ret).2, Q', F, (op, ret))
    else none

/-- the `for` loop over the entries of `remaining_history_by_thread` (in key order) -/
def tryThreads (spec : SeqSpec S Op Ret)
    (rec : List (Op × Ret) → S → Queues Op Ret → InFlights Op → Option (List (Op × Ret)))
    (acc : List (Op × Ret)) (obj : S) (Q : Queues Op Ret) (F : InFlights Op) :
    List (Nat × List (Item Op Ret)) → Option (List (Op × Ret))
  | [] => none
  | (t, rem) :: rest =>
    match branch spec obj Q F t rem with
    | none => tryThreads spec rec acc obj Q F rest
    | some (obj', Q', F', x) =>
      match rec (acc ++ [x]) obj' Q' F' with
      | some h => some h
      | none => tryThreads spec rec acc obj Q F rest

def serialize (spec : SeqSpec S Op Ret) : Nat → List (Op × Ret) → S → Queues Op Ret → InFlights Op →
    Option (List (Op × Ret))
  | 0, _, _, _, _ => none
  | fuel + 1, acc, obj, Q, F =>
    if Q.all (fun e => e.2.isEmpty) then some acc
    else tryThreads spec (serialize spec fuel) acc obj Q F Q

/-- `.map(|(t, cs)| (*t, cs.clone().into_iter().enumerate().collect()))` -/
def enumQueues (hist : List (Nat × List (LC × Op × Ret))) : Queues Op Ret :=
  hist.map fun e => (e.1, e.2.zipIdx.map fun x => (x.2, x.1))

def serializedHistory (spec : SeqSpec S Op Ret) (T : Tester S Op Ret) : Option (List (Op × Ret)) :=
  if !T.valid then none
  else serialize spec (T.len + 1) [] T.init (enumQueues T.hist) T.inflight

def isConsistent (spec : SeqSpec S Op Ret) (T : Tester S Op Ret) : Bool :=
  (serializedHistory spec T).isSome

end Tester
end SR.Sem
