import SR.Sem.Objects
import SR.Sem.SeqCons
/-!
The register harness: `RegisterActor::Client` / `WORegisterActor::Client` (src/actor/register.rs,
src/actor/write_once_register.rs) and the history hooks `record_invocations` / `record_returns`,
together with the part of `ActorModel::next_state` / `process_commands` (src/actor/model.rs) that
decides *whether a delivery is a step* and *when the hooks run*:

* `on_msg` is run first; if it neither changes the state nor outputs anything the delivery is a
  no-op, and on the unordered networks a no-op delivery is not a step at all;
* otherwise `record_msg_in` is applied to the previous history and the delivered message, then the
  handler's `Send`s are processed in order, each going through `record_msg_out` first.

Values are numbers (`char` codes), request ids are numbers, actor ids are indices. One message
type serves both harnesses (`PutFail` exists only in the write-once flavour, flag `wo`).
Servers are not modelled: they are the environment, their outputs are inputs of the step functions.
-/
namespace SR.Sem.RC
open SR.Sem

inductive RMsg where
  | internal
  | put (rid v : Nat)
  | get (rid : Nat)
  | putOk (rid : Nat)
  | putFail (rid : Nat)
  | getOk (rid v : Nat)
deriving DecidableEq, Repr

/-- `RegisterActor::Client { put_count, server_count }` -/
structure Client where
  putCount : Nat
  serverCount : Nat
deriving DecidableEq, Repr

/-- `RegisterActorState::Client { awaiting, op_count }` -/
structure CState where
  awaiting : Option Nat
  opCount : Nat
deriving DecidableEq, Repr

/-- a `Send(dst, msg)` command -/
abbrev Send := Nat × RMsg

/-- `on_start`; `none` = panic (client added before the servers, or `% 0`) -/
def Client.start (c : Client) (index : Nat) : Option (CState × List Send) :=
  if index < c.serverCount then none
  else if c.putCount = 0 then some ({ awaiting := none, opCount := 0 }, [])
  else if c.serverCount = 0 then none
  else some ({ awaiting := some (1 * index), opCount := 1 },
             [((index + 0) % c.serverCount, .put (1 * index) (65 + (index - c.serverCount)))])

/-- the request sent after an accepted `PutOk` / `PutFail`: another `Put` while
    `op_count < put_count`, then one `Get` -/
def Client.nextReq (c : Client) (index opCount : Nat) : Send :=
  if opCount < c.putCount then
    ((index + opCount) % c.serverCount, .put ((opCount + 1) * index) (90 - (index - c.serverCount)))
  else ((index + opCount) % c.serverCount, .get ((opCount + 1) * index))

/-- `on_msg` of a client; `none` = state left borrowed and no output (a no-op) -/
def Client.onMsg (wo : Bool) (c : Client) (index : Nat) (st : CState) (msg : RMsg) :
    Option (CState × List Send) :=
  match st.awaiting with
  | none => none
  | some aw =>
    match msg with
    | .putOk rid =>
      if rid = aw then
        some ({ awaiting := some ((st.opCount + 1) * index), opCount := st.opCount + 1 },
              [c.nextReq index st.opCount])
      else none
    | .putFail rid =>
      if wo && decide (rid = aw) then
        some ({ awaiting := some ((st.opCount + 1) * index), opCount := st.opCount + 1 },
              [c.nextReq index st.opCount])
      else none
    | .getOk rid _ =>
      if rid = aw then some ({ awaiting := none, opCount := st.opCount + 1 }, []) else none
    | _ => none

/-- what the hooks need from a consistency tester and its reference object -/
structure Iface (H Op Ret : Type) where
  onInvoke : H → Nat → Op → H
  onReturn : H → Nat → Ret → H
  write : Nat → Op
  read : Op
  writeOk : Ret
  writeFail : Ret
  readOk : Nat → Ret

/-- `record_invocations` (installed as `record_msg_out`): `Get` ↦ `on_invoke(src, Read)`,
    `Put(_, v)` ↦ `on_invoke(src, Write(v))`, anything else leaves the history alone -/
def recordInvocations {H Op Ret} (I : Iface H Op Ret) (h : H) (src : Nat) : RMsg → Option H
  | .get _ => some (I.onInvoke h src I.read)
  | .put _ v => some (I.onInvoke h src (I.write v))
  | _ => none

/-- `record_returns` (installed as `record_msg_in`): `GetOk(_, v)` ↦ `on_return(dst, ReadOk(v))`,
    `PutOk` ↦ `WriteOk`, `PutFail` ↦ `WriteFail` (write-once flavour only) -/
def recordReturns {H Op Ret} (I : Iface H Op Ret) (wo : Bool) (h : H) (dst : Nat) : RMsg → Option H
  | .getOk _ v => some (I.onReturn h dst (I.readOk v))
  | .putOk _ => some (I.onReturn h dst I.writeOk)
  | .putFail _ => if wo then some (I.onReturn h dst I.writeFail) else none
  | _ => none

/-- `process_commands`, history part: every `Send` goes through `record_msg_out` -/
def processSends {H Op Ret} (I : Iface H Op Ret) (src : Nat) (h : H) (outs : List Send) : H :=
  outs.foldl (fun h o => (recordInvocations I h src o.2).getD h) h

/-- the client-and-history part of an `ActorModelState` -/
structure RSys (H : Type) where
  clients : List (Nat × CState)
  hist : H

/-- the actors of the model, in index order -/
inductive ActorDesc where
  | server (startOuts : List Send)
  | client (c : Client)

/-- `init_states`: actors are started in index order, their commands processed at once;
    `none` = a client's `on_start` panics -/
def initFrom {H Op Ret} (I : Iface H Op Ret) : Nat → List ActorDesc → RSys H → Option (RSys H)
  | _, [], s => some s
  | i, .server outs :: rest, s => initFrom I (i + 1) rest { s with hist := processSends I i s.hist outs }
  | i, .client c :: rest, s =>
    match c.start i with
    | none => none
    | some (st, outs) =>
      initFrom I (i + 1) rest { clients := s.clients ++ [(i, st)], hist := processSends I i s.hist outs }

def init {H Op Ret} (I : Iface H Op Ret) (h0 : H) (actors : List ActorDesc) : Option (RSys H) :=
  initFrom I 0 actors { clients := [], hist := h0 }

def clientAt (actors : List ActorDesc) (i : Nat) : Option Client :=
  match actors[i]? with
  | some (.client c) => some c
  | _ => none

/-- `Deliver { src, dst, msg }` to a client. `none` = not a step. -/
def deliverClient {H Op Ret} (I : Iface H Op Ret) (wo ordered : Bool) (c : Client) (s : RSys H)
    (dst : Nat) (msg : RMsg) : Option (RSys H) :=
  match AMap.find? dst s.clients with
  | none => none
  | some st =>
    match c.onMsg wo dst st msg with
    | none =>
      -- a no-op: ignored on the unordered networks; on an ordered network it is a step and the
      -- `record_msg_in` hook still runs
      if ordered then some { s with hist := (recordReturns I wo s.hist dst msg).getD s.hist } else none
    | some (st', outs) =>
      let h1 := (recordReturns I wo s.hist dst msg).getD s.hist
      some { clients := AMap.upsert dst st' s.clients, hist := processSends I dst h1 outs }

/-- `Deliver` to a server whose handler (the environment) reported `changed` and `outs` -/
def deliverServer {H Op Ret} (I : Iface H Op Ret) (wo ordered : Bool) (s : RSys H)
    (dst : Nat) (msg : RMsg) (changed : Bool) (outs : List Send) : Option (RSys H) :=
  if !changed && outs.isEmpty && !ordered then none
  else
    let h1 := (recordReturns I wo s.hist dst msg).getD s.hist
    some { s with hist := processSends I dst h1 outs }

/-- `Timeout` of a server (clients ignore timeouts): its sends are processed -/
def timeoutServer {H Op Ret} (I : Iface H Op Ret) (s : RSys H) (id : Nat) (outs : List Send) : RSys H :=
  { s with hist := processSends I id s.hist outs }

/-- one action of a path, with the environment's part spelled out -/
inductive Act where
  | deliverC (dst : Nat) (msg : RMsg)
  | deliverS (dst : Nat) (msg : RMsg) (changed : Bool) (outs : List Send)
  | timeoutS (id : Nat) (outs : List Send)
  | drop

def act {H Op Ret} (I : Iface H Op Ret) (wo ordered : Bool) (actors : List ActorDesc) (s : RSys H) :
    Act → Option (RSys H)
  | .deliverC dst msg =>
    match clientAt actors dst with
    | none => none
    | some c => deliverClient I wo ordered c s dst msg
  | .deliverS dst msg changed outs => deliverServer I wo ordered s dst msg changed outs
  | .timeoutS id outs => some (timeoutServer I s id outs)
  | .drop => some s

def runPath {H Op Ret} (I : Iface H Op Ret) (wo ordered : Bool) (actors : List ActorDesc) :
    RSys H → List Act → Option (RSys H)
  | s, [] => some s
  | s, a :: rest =>
    match act I wo ordered actors s a with
    | none => none
    | some s' => runPath I wo ordered actors s' rest

/-! the four instantiations: {Register, WORegister} × {linearizability, sequential consistency} -/
def regLin : Iface (Tester Nat (RegOp Nat) (RegRet Nat)) (RegOp Nat) (RegRet Nat) where
  onInvoke T t op := (Tester.onInvoke true T t op).1
  onReturn T t r := (Tester.onReturn T t r).1
  write := .write
  read := .read
  writeOk := .writeOk
  writeFail := .writeOk   -- never used: the Register flavour has no `PutFail`
  readOk := .readOk

def regSC : Iface (SCTester Nat (RegOp Nat) (RegRet Nat)) (RegOp Nat) (RegRet Nat) where
  onInvoke T t op := (SCTester.onInvoke T t op).1
  onReturn T t r := (SCTester.onReturn T t r).1
  write := .write
  read := .read
  writeOk := .writeOk
  writeFail := .writeOk
  readOk := .readOk

def woLin : Iface (Tester (Option Nat) (WOOp Nat) (WORet Nat)) (WOOp Nat) (WORet Nat) where
  onInvoke T t op := (Tester.onInvoke true T t op).1
  onReturn T t r := (Tester.onReturn T t r).1
  write := .write
  read := .read
  writeOk := .writeOk
  writeFail := .writeFail
  readOk v := .readOk (some v)

def woSC : Iface (SCTester (Option Nat) (WOOp Nat) (WORet Nat)) (WOOp Nat) (WORet Nat) where
  onInvoke T t op := (SCTester.onInvoke T t op).1
  onReturn T t r := (SCTester.onReturn T t r).1
  write := .write
  read := .read
  writeOk := .writeOk
  writeFail := .writeFail
  readOk v := .readOk (some v)


/-!
## The harness as a transition system with an arbitrary environment (for the C18 theorems)

Servers and the network are replaced by an *arbitrary environment* that may put a reply
`(client, msg)` into the network at any time, provided the request id it answers was sent by that
client before and has not been answered yet ("answers each request at most once"); replies are
delivered in any order, may be dropped, and on a duplicating network stay deliverable. Deliveries
to clients go through the executable `deliverClient` above (the delivery rule of actor/model.rs
included). Deliveries *to servers* and server timeouts are not steps of this system: they touch
clients and history only through the replies they send, because `record_returns` ignores `Put` /
`Get` / `Internal` and `record_invocations` ignores replies and `Internal` (servers are assumed to
send nothing else).

Ghost components (`sent`, `replied`, `log`) record what happened; they influence nothing.
-/

/-- client-visible events, in the order they happened -/
inductive CEv where
  | send (c : Nat) (m : RMsg)   -- client `c` sent request `m`
  | acc (c : Nat) (m : RMsg)    -- client `c` accepted reply `m` (its handler acted on it)
deriving DecidableEq, Repr

def ridOf : RMsg → Nat
  | .internal => 0
  | .put r _ => r
  | .get r => r
  | .putOk r => r
  | .putFail r => r
  | .getOk r _ => r

/-- the messages a server may answer with -/
def IsReply (wo : Bool) : RMsg → Prop
  | .putOk _ => True
  | .getOk _ _ => True
  | .putFail _ => wo = true
  | _ => False

structure Cfg where
  wo : Bool
  ordered : Bool
  dup : Bool
  nServers : Nat
  clients : List Client

def Cfg.actors (cfg : Cfg) : List ActorDesc :=
  List.replicate cfg.nServers (.server []) ++ cfg.clients.map .client

/-- well-formed configuration: at least one server, every client knows the server count, an
    ordered network does not duplicate -/
structure Cfg.Ok (cfg : Cfg) : Prop where
  servers : 1 ≤ cfg.nServers
  counts : ∀ c ∈ cfg.clients, c.serverCount = cfg.nServers
  net : cfg.ordered = true → cfg.dup = false

structure HSt (H : Type) where
  sys : RSys H
  pool : List (Nat × RMsg)
  sent : List (Nat × Nat)
  replied : List (Nat × Nat)
  log : List CEv

def HSt.init {H : Type} (h0 : H) : HSt H :=
  { sys := { clients := [], hist := h0 }, pool := [], sent := [], replied := [], log := [] }

/-- what a client handler's output adds to the ghost state -/
def sentOf (c : Nat) (outs : List Send) : List (Nat × Nat) := outs.map fun o => (c, ridOf o.2)
def logOf (c : Nat) (outs : List Send) : List CEv := outs.map fun o => CEv.send c o.2

inductive Step {H Op Ret : Type} (cfg : Cfg) (I : Iface H Op Ret) : HSt H → HSt H → Prop
  /-- `init_states` starts the next client (`on_start`, commands processed at once) -/
  | start {s : HSt H} {c : Client} {st : CState} {outs : List Send} :
      cfg.clients[s.sys.clients.length]? = some c →
      c.start (cfg.nServers + s.sys.clients.length) = some (st, outs) →
      Step cfg I s
        { sys := { clients := s.sys.clients ++ [(cfg.nServers + s.sys.clients.length, st)],
                   hist := processSends I (cfg.nServers + s.sys.clients.length) s.sys.hist outs },
          pool := s.pool,
          sent := s.sent ++ sentOf (cfg.nServers + s.sys.clients.length) outs,
          replied := s.replied,
          log := s.log ++ logOf (cfg.nServers + s.sys.clients.length) outs }
  /-- the environment answers a request that was sent and not answered before -/
  | emit {s : HSt H} {c : Nat} {m : RMsg} :
      IsReply cfg.wo m → (c, ridOf m) ∈ s.sent → (c, ridOf m) ∉ s.replied →
      Step cfg I s { s with pool := s.pool ++ [(c, m)], replied := (c, ridOf m) :: s.replied }
  /-- a reply is delivered and the client acts on it -/
  | deliver {s : HSt H} {c : Nat} {m : RMsg} {cl : Client} {st st' : CState} {outs : List Send} {sys' : RSys H} :
      (c, m) ∈ s.pool → clientAt cfg.actors c = some cl →
      AMap.find? c s.sys.clients = some st → cl.onMsg cfg.wo c st m = some (st', outs) →
      deliverClient I cfg.wo cfg.ordered cl s.sys c m = some sys' →
      Step cfg I s
        { sys := sys',
          pool := if cfg.dup then s.pool else s.pool.erase (c, m),
          sent := s.sent ++ sentOf c outs,
          replied := s.replied,
          log := s.log ++ CEv.acc c m :: logOf c outs }
  /-- a reply is delivered and ignored by the client, yet the delivery is a step (ordered network) -/
  | deliverIgnored {s : HSt H} {c : Nat} {m : RMsg} {cl : Client} {st : CState} {sys' : RSys H} :
      (c, m) ∈ s.pool → clientAt cfg.actors c = some cl →
      AMap.find? c s.sys.clients = some st → cl.onMsg cfg.wo c st m = none →
      deliverClient I cfg.wo cfg.ordered cl s.sys c m = some sys' →
      Step cfg I s { s with sys := sys', pool := s.pool.erase (c, m) }
  /-- a reply is lost -/
  | drop {s : HSt H} {c : Nat} {m : RMsg} :
      (c, m) ∈ s.pool → Step cfg I s { s with pool := s.pool.erase (c, m) }

inductive Reach {H Op Ret : Type} (cfg : Cfg) (I : Iface H Op Ret) (h0 : H) : HSt H → Prop
  | init : Reach cfg I h0 (HSt.init h0)
  | step {s s' : HSt H} : Reach cfg I h0 s → Step cfg I s s' → Reach cfg I h0 s'

/-- the operation a request message stands for / the return a reply stands for -/
def opOfMsg {H Op Ret} (I : Iface H Op Ret) : RMsg → Option Op
  | .put _ v => some (I.write v)
  | .get _ => some I.read
  | _ => none

def retOfMsg {H Op Ret} (I : Iface H Op Ret) (wo : Bool) : RMsg → Option Ret
  | .putOk _ => some I.writeOk
  | .putFail _ => if wo then some I.writeFail else none
  | .getOk _ v => some (I.readOk v)
  | _ => none

/-- the mirror of the client-visible calls of client `c`: completed `(op, ret)` pairs in order and
    the outstanding operation -/
def mirrorStep {H Op Ret} (I : Iface H Op Ret) (wo : Bool) (c : Nat) (acc : List (Op × Ret) × Option Op) :
    CEv → List (Op × Ret) × Option Op
  | .send c' m => if c' = c then (acc.1, opOfMsg I m) else acc
  | .acc c' m =>
    if c' = c then
      match acc.2, retOfMsg I wo m with
      | some op, some r => (acc.1 ++ [(op, r)], none)
      | _, _ => acc
    else acc

def mirror {H Op Ret} (I : Iface H Op Ret) (wo : Bool) (c : Nat) (log : List CEv) : List (Op × Ret) × Option Op :=
  log.foldl (mirrorStep I wo c) ([], none)

/-- the request ids client `c` has used, in order -/
def ridsOf (c : Nat) (log : List CEv) : List Nat :=
  log.filterMap fun e => match e with
    | .send c' m => if c' = c then some (ridOf m) else none
    | .acc _ _ => none

/-- what the theorems need to know about a history type: validity flag, in-flight operation and
    completed operations per thread, and how `on_invoke` / `on_return` act on a valid history -/
structure HistView {H Op Ret : Type} (I : Iface H Op Ret) where
  good : H → Prop
  valid : H → Bool
  inflight : H → Nat → Option Op
  done : H → Nat → List (Op × Ret)
  inv_ok : ∀ h t op, good h → valid h = true → inflight h t = none →
    good (I.onInvoke h t op) ∧ valid (I.onInvoke h t op) = true ∧
    inflight (I.onInvoke h t op) t = some op ∧
    (∀ t', t' ≠ t → inflight (I.onInvoke h t op) t' = inflight h t') ∧
    (∀ t', done (I.onInvoke h t op) t' = done h t')
  ret_ok : ∀ h t op r, good h → valid h = true → inflight h t = some op →
    good (I.onReturn h t r) ∧ valid (I.onReturn h t r) = true ∧
    inflight (I.onReturn h t r) t = none ∧
    (∀ t', t' ≠ t → inflight (I.onReturn h t r) t' = inflight h t') ∧
    done (I.onReturn h t r) t = done h t ++ [(op, r)] ∧
    (∀ t', t' ≠ t → done (I.onReturn h t r) t' = done h t')

end SR.Sem.RC
