/-!
`SequentialSpec` (src/semantics.rs): a reference object with `invoke` and an overridable
`is_valid_step`. `&mut self` becomes "return the new object": `invoke s op = (s', ret)`,
`isValidStep s op ret = (verdict, s')` — the object after the call is part of the result, also when
the verdict is `false` (the hand-optimised overrides then leave it in a different state than
`invoke` would; see `Objects.lean`).
-/
namespace SR.Sem

structure SeqSpec (S Op Ret : Type) where
  invoke : S → Op → S × Ret
  isValidStep : S → Op → Ret → Bool × S

namespace SeqSpec
variable {S Op Ret : Type}

/-- the trait's default `is_valid_step`: `&self.invoke(op) == ret` -/
def defaultStep [DecidableEq Ret] (invoke : S → Op → S × Ret) (s : S) (op : Op) (r : Ret) : Bool × S :=
  (decide ((invoke s op).2 = r), (invoke s op).1)

/-- a spec that does not override `is_valid_step` -/
def ofInvoke [DecidableEq Ret] (invoke : S → Op → S × Ret) : SeqSpec S Op Ret :=
  { invoke := invoke, isValidStep := defaultStep invoke }

/-- `is_valid_history`: `ops.into_iter().all(|(op, ret)| self.is_valid_step(&op, &ret))` — `all`
    short-circuits, so the object is left as the first rejected step left it. -/
def validHistory (spec : SeqSpec S Op Ret) : S → List (Op × Ret) → Bool × S
  | s, [] => (true, s)
  | s, (op, r) :: l =>
    let p := spec.isValidStep s op r
    if p.1 then validHistory spec p.2 l else (false, p.2)

def isValidHistory (spec : SeqSpec S Op Ret) (s : S) (l : List (Op × Ret)) : Bool :=
  (spec.validHistory s l).1

/-- the sequential trace: invoke the operations one after the other, pairing each with its return -/
def trace (spec : SeqSpec S Op Ret) : S → List Op → List (Op × Ret)
  | _, [] => []
  | s, op :: ops => (op, (spec.invoke s op).2) :: trace spec (spec.invoke s op).1 ops

/-- the object after invoking a list of operations -/
def run (spec : SeqSpec S Op Ret) : S → List Op → S
  | s, [] => s
  | s, op :: ops => run spec (spec.invoke s op).1 ops

/-- C18's contract on `is_valid_step`: the verdict is "invoke and compare", and an accepted step
    leaves the object as `invoke` would. (Nothing is required of the object after a rejection.) -/
structure Lawful (spec : SeqSpec S Op Ret) : Prop where
  verdict : ∀ s op r, (spec.isValidStep s op r).1 = true ↔ (spec.invoke s op).2 = r
  state : ∀ s op r, (spec.isValidStep s op r).1 = true → (spec.isValidStep s op r).2 = (spec.invoke s op).1

end SeqSpec
end SR.Sem
