import SR.Basic
/-!
Model of src/has_discoveries.rs (`HasDiscoveries::matches`).

Property names are `Nat`s (the harness numbers the `&'static str` names; a name that belongs to no
property of the list is a *foreign* name). `discoveries : &BTreeSet<&'static str>` is a duplicate-free
list `D`; the sets inside `AllOf` / `AnyOf` are lists too. `matches` reads exactly what the code
reads: `All` compares two *lengths* (it never looks at a name), `Any` looks only at `D`,
`AnyFailures`/`AllFailures` filter the property list by `discovery_is_failure`, `AllOf`/`AnyOf` never
look at the property list.
-/
namespace SR.HasDisc

/-- what `matches` reads of a `Property`: its name and its expectation -/
structure P where
  name : Nat
  exp : Expect
deriving DecidableEq, Repr, Inhabited

/-- `HasDiscoveries` -/
inductive Cond where
  | all
  | any
  | anyFailures
  | allFailures
  | allOf (s : List Nat)
  | anyOf (s : List Nat)
deriving DecidableEq, Repr, Inhabited

/-- `Expectation::discovery_is_failure` -/
def isFailure : Expect → Bool
  | .always => true
  | .eventually => true
  | .sometimes => false

/-- `HasDiscoveries::matches(&self, discoveries, properties)`; `D` stands for the `BTreeSet`
    (`D.length` = `discoveries.len()` when `D` is duplicate-free). -/
def «matches» (c : Cond) (D : List Nat) (props : List P) : Bool :=
  match c with
  | .all => D.length == props.length
  | .any => !D.isEmpty
  | .anyFailures => (props.filter fun p => isFailure p.exp).any fun p => D.contains p.name
  | .allFailures => (props.filter fun p => isFailure p.exp).all fun p => D.contains p.name
  | .allOf s => s.all fun n => D.contains n
  | .anyOf s => s.any fun n => D.contains n

/-- the names of a property list -/
def names (props : List P) : List Nat := props.map (·.name)

end SR.HasDisc
