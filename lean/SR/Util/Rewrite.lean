import SR.Util.DenseNatMap
import SR.Hash.Univ
/-
Model of src/checker/rewrite.rs (the structural `Rewrite<Id>` impls), of `RewritePlan::reindex`
(src/checker/rewrite_plan.rs) with its panics, and of `Representative for ActorModelState`
(src/actor/model_state.rs), over the value universe of `SR.Hash.Univ` (type code `.id` = `Id`).

A plan is the list `plan[i]` = new id of old id `i` (`DNM.planOf` transcribes `from_values_to_sort`).
`plan.rewrite(x)` is `*s.get(x).unwrap()`: ids outside the plan PANIC — modelled as `none` throughout.
-/
namespace SR.RW
open SR.Hash

/-! ### Rust's derived `Ord` on the orderable fragment of the universe -/

def cmpNat (a b : Nat) : Ordering := compare a b
def cmpBool (a b : Bool) : Ordering := compare a.toNat b.toNat

/-- lexicographic order of sequences (`Vec`, `VecDeque`, `BTreeMap`, `str` as bytes): a proper prefix is smaller -/
def cmpList {α} (c : α → α → Ordering) : List α → List α → Ordering
  | [], [] => .eq
  | [], _ :: _ => .lt
  | _ :: _, [] => .gt
  | a :: as, b :: bs => (c a b).then (cmpList c as bs)

def cmpPair {α β} (c1 : α → α → Ordering) (c2 : β → β → Ordering) (p q : α × β) : Ordering :=
  (c1 p.1 q.1).then (c2 p.2 q.2)

/-- `Ord::cmp`. For `HashableHashSet/Map` (ordered by a `DefaultHasher` hash), `VectorClock` and the choices
(no `Ord`) the answer `.eq` is a placeholder: those types are never sorted by the modelled code paths. -/
def cmpVal : (τ : Ty) → Val τ → Val τ → Ordering
  | .unit, _, _ => .eq
  | .bool, a, b => cmpBool a b
  | .u8, a, b | .u32, a, b | .u64, a, b | .usize, a, b | .id, a, b => cmpNat a b
  | .str, a, b => cmpList cmpNat a b
  | .arc t, a, b => cmpVal t a b
  | .tup s t, x, y => (cmpVal s x.1 y.1).then (cmpVal t x.2 y.2)
  | .enum2 s _, .inl x, .inl y => cmpVal s x y
  | .enum2 _ t, .inr x, .inr y => cmpVal t x y
  | .enum2 _ _, .inl _, .inr _ => .lt
  | .enum2 _ _, .inr _, .inl _ => .gt
  | .enum3 s _ _, .inl x, .inl y => cmpVal s x y
  | .enum3 _ t _, .inr (.inl x), .inr (.inl y) => cmpVal t x y
  | .enum3 _ _ u, .inr (.inr x), .inr (.inr y) => cmpVal u x y
  | .enum3 _ _ _, .inl _, .inr _ => .lt
  | .enum3 _ _ _, .inr _, .inl _ => .gt
  | .enum3 _ _ _, .inr (.inl _), .inr (.inr _) => .lt
  | .enum3 _ _ _, .inr (.inr _), .inr (.inl _) => .gt
  | .vec t, l1, l2 | .deque t, l1, l2 | .bset t, l1, l2 => cmpList (cmpVal t) l1 l2
  | .bmap k v, l1, l2 => cmpList (cmpPair (cmpVal k) (cmpVal v)) l1 l2
  | .hset _, _, _ | .hmap _ _, _, _ | .vclock, _, _ | .choices _, _, _ => .eq

def leVal (τ : Ty) (a b : Val τ) : Bool := cmpVal τ a b != .gt

/-! ### collecting into the crate's / std's collections (`FromIterator`) -/

/-- `BTreeSet::insert` into the sorted entry list (an equal element is kept, not replaced) -/
def bsetInsert {α} (c : α → α → Ordering) (x : α) : List α → List α
  | [] => [x]
  | y :: ys => match c x y with
    | .lt => x :: y :: ys
    | .eq => y :: ys
    | .gt => y :: bsetInsert c x ys

def bsetCollect {α} (c : α → α → Ordering) (xs : List α) : List α := xs.foldl (fun acc x => bsetInsert c x acc) []

/-- `BTreeMap::insert` (the value of an existing key is overwritten) -/
def bmapInsert {α β} (c : α → α → Ordering) (k : α) (v : β) : List (α × β) → List (α × β)
  | [] => [(k, v)]
  | (k', v') :: ys => match c k k' with
    | .lt => (k, v) :: (k', v') :: ys
    | .eq => (k', v) :: ys
    | .gt => (k', v') :: bmapInsert c k v ys

def bmapCollect {α β} (c : α → α → Ordering) (ps : List (α × β)) : List (α × β) :=
  ps.foldl (fun acc p => bmapInsert c p.1 p.2 acc) []

/-- `HashSet::insert` (iteration order is arbitrary; the model keeps insertion order) -/
def hsetCollect {α} (eq : α → α → Bool) (xs : List α) : List α :=
  xs.foldl (fun acc x => if acc.any (eq x) then acc else acc ++ [x]) []

def hmapCollect {α β} (eq : α → α → Bool) (ps : List (α × β)) : List (α × β) :=
  ps.foldl (fun acc p => if acc.any (fun q => eq p.1 q.1) then acc.map (fun q => if eq p.1 q.1 then (q.1, p.2) else q)
    else acc ++ [p]) []

/-! ### `Rewrite<Id>::rewrite` -/

def rwPair {α β} (f : α → Option α) (g : β → Option β) (p : α × β) : Option (α × β) := do
  let a ← f p.1
  let b ← g p.2
  pure (a, b)

/-- `x.rewrite(plan)`; `p` is `plan.rewrite` on ids (`none` = the `unwrap` panic). -/
def rwVal (p : Nat → Option Nat) : (τ : Ty) → Val τ → Option (Val τ)
  | .unit, v => some v
  | .bool, v => some v
  | .u8, v | .u32, v | .u64, v | .usize, v => some v
  | .str, v => some v
  | .id, n => p n
  | .arc t, v => rwVal p t v
  | .tup a b, x => rwPair (rwVal p a) (rwVal p b) x
  | .enum2 a _, .inl x => (rwVal p a x).map Sum.inl
  | .enum2 _ b, .inr y => (rwVal p b y).map Sum.inr
  | .enum3 a _ _, .inl x => (rwVal p a x).map Sum.inl
  | .enum3 _ b _, .inr (.inl y) => (rwVal p b y).map (Sum.inr ∘ Sum.inl)
  | .enum3 _ _ c, .inr (.inr z) => (rwVal p c z).map (Sum.inr ∘ Sum.inr)
  | .vec t, l => l.mapM (rwVal p t)
  | .deque t, l => l.mapM (rwVal p t)
  | .bset t, l => (l.mapM (rwVal p t)).map (bsetCollect (cmpVal t))
  | .bmap k v, l => (l.mapM (rwPair (rwVal p k) (rwVal p v))).map (bmapCollect (cmpVal k))
  | .hset t, l => (l.mapM (rwVal p t)).map (hsetCollect (equivB t))
  | .hmap k v, l => (l.mapM (rwPair (rwVal p k) (rwVal p v))).map (hmapCollect (equivB k))
  | .vclock, c => some c
  | .choices r, l => l.mapM fun m => (m.mapM (rwPair some (List.mapM (rwVal p r)))).map (hmapCollect bytesEqB)

/-- `RandomChoices<R>::rewrite`: keys cloned, every choice rewritten, collected into a fresh map -/
def rwChoiceMap (p : Nat → Option Nat) (r : Ty) (m : List (List Nat × List (Val r))) :
    Option (List (List Nat × List (Val r))) :=
  (m.mapM (rwPair some (List.mapM (rwVal p r)))).map (hmapCollect bytesEqB)

/-! ### plans -/

def planFn (plan : List Nat) (x : Nat) : Option Nat := plan[x]?

/-- `RewritePlan::reindex` with its panics: `indexed[i]` out of bounds (collection shorter than the plan) and a
panicking element rewrite are `none`; elements beyond the plan's length are silently dropped. -/
def reindexO {α} (plan : List Nat) (rw : α → Option α) (xs : List α) : Option (List α) :=
  let inv := ((List.range plan.length).zip plan).map (fun (i, v) => (v, i))
  let inv := inv.mergeSort (fun a b => decide (a.1 ≤ b.1))
  inv.mapM fun (_, i) => (xs[i]?).bind rw

/-! ### actor-system states -/

structure St (s m t r hist : Ty) where
  actors : List (Val s)
  history : Val hist
  timers : List (Val (Ty.timers t))
  net : Val (Ty.net m)
  crashed : List Bool
  choices : List (List (List Nat × List (Val r)))

def St.ofVal {s m t r hist : Ty} (v : Val (Ty.state s m t r hist)) : St s m t r hist :=
  { actors := v.1, history := v.2.1, timers := v.2.2.1, net := v.2.2.2.1, crashed := v.2.2.2.2.1,
    choices := v.2.2.2.2.2 }

/-- `ActorModelState::representative` (timers: `Timers::rewrite` is `clone`, so they are only reindexed) -/
def representative {s m t r hist : Ty} (st : St s m t r hist) : Option (St s m t r hist) := do
  let plan := DNM.planOf (leVal s) st.actors
  let p := planFn plan
  let actors ← reindexO plan (rwVal p s) st.actors
  let net ← rwVal p (Ty.net m) st.net
  let timers ← reindexO plan some st.timers
  let choices ← reindexO plan (rwChoiceMap p r) st.choices
  let crashed ← reindexO plan some st.crashed
  let history ← rwVal p hist st.history
  pure { actors, history, timers, net, crashed, choices }

/-! ### the declarative image of a state under ONE permutation -/

/-- the list `ys` of length `π.length` with `ys[π[i]] = xs[i]` -/
def place {α} (π : List Nat) (xs : List α) : Option (List α) :=
  (List.range π.length).mapM fun j => if j ∈ π then xs[π.idxOf j]? else none

/-- actor `i` (state, timers, pending choices, crash flag) moves to position `π i`; every `Id` inside actor
states, envelopes (src, dst, payload), choices and history becomes `π id`.  `rwTimers` says whether ids inside
TIMER values are rewritten too (the full-strength reading) or left alone (what `Timers::rewrite` does). -/
def applyPerm {s m t r hist : Ty} (rwTimers : Bool) (π : List Nat) (st : St s m t r hist) :
    Option (St s m t r hist) := do
  let p := planFn π
  let actors ← place π (← (st.actors.take π.length).mapM (rwVal p s))
  let net ← rwVal p (Ty.net m) st.net
  let timers ← place π (← (st.timers.take π.length).mapM (if rwTimers then rwVal p (Ty.timers t) else some))
  let choices ← place π (← (st.choices.take π.length).mapM (rwChoiceMap p r))
  let crashed ← place π (st.crashed.take π.length)
  let history ← rwVal p hist st.history
  pure { actors, history, timers, net, crashed, choices }

/-- equality of two states: hash-table collections modulo iteration order, everything else exact
(in particular the `random_choices` vectors are compared position by position, padding included) -/
def St.eqB {s m t r hist : Ty} (a b : St s m t r hist) : Bool :=
  all2B (equivB s) a.actors b.actors && equivB hist a.history b.history &&
  all2B (equivB (Ty.timers t)) a.timers b.timers && equivB (Ty.net m) a.net b.net &&
  a.crashed == b.crashed && all2B (equivB (Ty.choiceMap r)) a.choices b.choices

/-- all permutations of `0..n-1` (as lists) -/
def perms : Nat → List (List Nat)
  | 0 => [[]]
  | n + 1 => (perms n).flatMap fun π => (List.range (n + 1)).map fun k => (π.take k) ++ n :: (π.drop k)

end SR.RW
