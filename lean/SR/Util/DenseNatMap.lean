/-
Model of src/util/densenatmap.rs and of RewritePlan (src/checker/rewrite_plan.rs).
A `DenseNatMap<K,V>` is its `values: Vec<V>`; keys are `usize::from(k)`.
-/
namespace SR.DNM

/-- `pairs.sort_by_key(|(k,_)| *k)`: Rust's stable sort; `List.mergeSort` is stable. -/
def sortByKey {V} (ps : List (Nat × V)) : List (Nat × V) :=
  ps.mergeSort (fun a b => decide (a.1 ≤ b.1))

/-- `FromIterator<(K,V)>`: `none` = the "Invalid key at index" panic. -/
def fromPairs {V} (ps : List (Nat × V)) : Option (List V) :=
  let s := sortByKey ps
  if s.map (·.1) = List.range s.length then some (s.map (·.2)) else none

inductive InsertResult (V : Type) where
  | panic
  | ok (m : List V) (prev : Option V)

/-- `DenseNatMap::insert` -/
def insert {V} (m : List V) (k : Nat) (v : V) : InsertResult V :=
  if k > m.length then .panic
  else if k = m.length then .ok (m ++ [v]) none
  else .ok (m.set k v) m[k]?

def get {V} (m : List V) (k : Nat) : Option V := m[k]?

/-- `Rewrite for DenseNatMap`: `iter().map(|(k,v)| (k.rewrite(plan), v.rewrite(plan))).collect()`.
    `pk` rewrites keys, `pv` rewrites values. -/
def rewrite {V} (pk : Nat → Nat) (pv : V → V) (m : List V) : Option (List V) :=
  fromPairs ((List.range m.length).zip m |>.map fun (k, v) => (pk k, pv v))

/-- `DenseNatMap<Id, V>::rewrite(plan)` for a plan given as its list (`plan[i]` = new id of `i`);
    `valuesAreIds` selects `V = Id` (values rewritten too) versus a plain value type (no-op rewrite).
    `none` = panic: `plan.get(x).unwrap()` on an id outside the plan, or the keys no longer dense. -/
def rewriteByPlan (plan : List Nat) (valuesAreIds : Bool) (m : List Nat) : Option (List Nat) :=
  if m.length > plan.length then none
  else if valuesAreIds && m.any (fun v => decide (v ≥ plan.length)) then none
  else rewrite (fun k => plan.getD k 0) (if valuesAreIds then (fun v => plan.getD v 0) else id) m

/-! ### RewritePlan::from_values_to_sort and reindex -/

/-- the plan's `DenseNatMap<R,R>`: `plan[i]` = new index of old index `i`.
    Parameterised by the (total, transitive) `≤` test of the values. -/
def planOf {V} (le : V → V → Bool) (vs : List V) : List Nat :=
  -- [(0,B),(1,C),(2,A)] sorted stably by value
  let combined := ((List.range vs.length).zip vs).mergeSort (fun a b => le a.2 b.2)
  -- enumerate: (sid, (i, v)); sort by i
  let c2 := ((List.range combined.length).zip combined).mergeSort (fun a b => decide (a.2.1 ≤ b.2.1))
  c2.map (·.1)

/-- `plan.rewrite(x)` = `*s.get(x).unwrap()`; `none` = the unwrap panic -/
def planRewrite (plan : List Nat) (x : Nat) : Option Nat := plan[x]?

/-- `RewritePlan::reindex`: `rw` is the element rewrite under the same plan -/
def reindex {V} [Inhabited V] (plan : List Nat) (rw : V → V) (xs : List V) : List V :=
  let inv := ((List.range plan.length).zip plan).map (fun (i, v) => (v, i))
  let inv := inv.mergeSort (fun a b => decide (a.1 ≤ b.1))
  inv.map fun (_, i) => rw (xs[i]!)

end SR.DNM
