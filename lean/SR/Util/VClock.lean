/-
Model of src/util/vector_clock.rs.  A clock is the `Vec<u32>` inside `VectorClock`, as a
`List Nat`; the u32 bound only matters for `incremented` (overflow), which is guarded.
-/
namespace SR.VClock

abbrev Clock := List Nat

/-- `*c.get(i).unwrap_or(&0)` -/
def get0 (c : Clock) (i : Nat) : Nat := c.getD i 0

/-- `VectorClock::merge_max` -/
def mergeMax (a b : Clock) : Clock :=
  (List.range (max a.length b.length)).map fun i => max (get0 a i) (get0 b i)

def u32Max : Nat := 4294967295

/-- `VectorClock::incremented`; `none` = arithmetic overflow (panic with overflow checks). -/
def incremented (a : Clock) (i : Nat) : Option Clock :=
  let a' := if i ≥ a.length then a ++ List.replicate (1 + i - a.length) 0 else a
  if get0 a' i ≥ u32Max then none else some (a'.set i (get0 a' i + 1))

/-- `PartialEq::eq`: the loop over `0..max(len, len)` -/
def eqLoop (a b : Clock) : List Nat → Bool
  | [] => true
  | i :: is => if get0 a i != get0 b i then false else eqLoop a b is

def veq (a b : Clock) : Bool := eqLoop a b (List.range (max a.length b.length))

/-- `PartialOrd::partial_cmp`: the loop with its early return. -/
def cmpLoop (a b : Clock) : Ordering → List Nat → Option Ordering
  | e, [] => some e
  | e, i :: is =>
    let o := compare (get0 a i) (get0 b i)
    if e == .eq then cmpLoop a b o is
    else if o != e && o != .eq then none
    else cmpLoop a b e is

def partialCmp (a b : Clock) : Option Ordering :=
  cmpLoop a b .eq (List.range (max a.length b.length))

/-- `rposition(|e| e != 0).map(|i| i+1).unwrap_or(0)` then `self.0[..cutoff]` -/
def trim : Clock → Clock
  | [] => []
  | x :: xs =>
    match trim xs with
    | [] => if x = 0 then [] else [x]
    | t => x :: t

/-- What `Hash` feeds: the slice `self.0[..cutoff]` (length prefix + elements: determined by the list). -/
def hashInput (a : Clock) : Clock := trim a

/-- `Display` -/
def display (a : Clock) : String :=
  "<" ++ String.join (a.map fun c => toString c ++ ", ") ++ "...>"

end SR.VClock
