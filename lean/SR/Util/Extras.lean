import SR.Util.DenseNatMap
import SR.Hash.Tok
import SR.Hash.Univ
/-
Models closing coverage gaps of the util containers (DESIGN §13c, worker W-G3):

* the remaining operations of `DenseNatMap` (src/util/densenatmap.rs): `len`, `Default`, `Index`, `IndexMut`,
  owned `IntoIterator` / `iter`, `values`, `From<Vec<V>>`;
* the plan constructors `From<DenseNatMap<R, V>>` / `From<&DenseNatMap<R, V>>` (src/checker/rewrite_plan.rs);
* the hash-based `Ord` of `HashableHashSet` / `HashableHashMap` (src/util.rs): `calculate_hash` = std's
  `DefaultHasher` (SipHash-1-3, keys 0, 0) fed by the collection's `Hash` impl.

A `DenseNatMap<K, V>` is its `values: Vec<V>` (a `List V`), keys are `usize::from(k)`.
-/
namespace SR.DNM

/-- `DenseNatMap::len` -/
def len {V} (m : List V) : Nat := m.length

/-- `DenseNatMap::default()` = `new()` = `from(Vec::new())` -/
def default {V} : List V := []

/-- `From<Vec<V>>` -/
def fromVec {V} (vs : List V) : List V := vs

/-- `DenseNatMap::values` -/
def values {V} (m : List V) : List V := m

inductive IndexResult (V : Type) where
  /-- `Vec::index` out of range -/
  | panic
  | ok (v : V)
deriving DecidableEq, Repr

/-- `Index<K>::index`: `self.values.index(usize::from(key))` -/
def index {V} (m : List V) (k : Nat) : IndexResult V :=
  if h : k < m.length then .ok m[k] else .panic

/-- `*m.index_mut(k) = v` (the assignment `m[k] = v`); `none` = the out-of-range panic -/
def indexMut {V} (m : List V) (k : Nat) (v : V) : Option (List V) :=
  if k < m.length then some (m.set k v) else none

/-- `Enumerate` over the values starting at `i` -/
def enumFrom {V} : Nat → List V → List (Nat × V)
  | _, [] => []
  | i, v :: vs => (i, v) :: enumFrom (i + 1) vs

/-- owned `IntoIterator` (`IntoIter::next` = `enumerate().next()` with the key converted) and `iter` -/
def intoIter {V} (m : List V) : List (Nat × V) := enumFrom 0 m

/-! ### a small command language (the driver replays an operation sequence on the model) -/

inductive Op where
  | ins (k v : Nat)      -- `m.insert(k, v)`
  | set (k v : Nat)      -- `m[k] = v`
  | idx (k : Nat)        -- `m[k]`
  | get (k : Nat)        -- `m.get(k)`
  | len                  -- `m.len()`
deriving Repr

inductive Obs where
  | prev (p : Option Nat) | unit | val (v : Nat) | opt (o : Option Nat) | n (n : Nat)
deriving Repr, DecidableEq

/-- one operation: `none` = panic (the map is lost: the harness stops there) -/
def step (m : List Nat) : Op → Option (List Nat × Obs)
  | .ins k v => match insert m k v with
    | .panic => none
    | .ok m' p => some (m', .prev p)
  | .set k v => (indexMut m k v).map fun m' => (m', .unit)
  | .idx k => match index m k with
    | .panic => none
    | .ok v => some (m, .val v)
  | .get k => some (m, .opt (get m k))
  | .len => some (m, .n (len m))

/-- run a sequence; the observations up to the first panic, the final map (`none` = panicked) -/
def run : List Nat → List Op → List Obs × Option (List Nat)
  | m, [] => ([], some m)
  | m, op :: ops => match step m op with
    | none => ([], none)
    | some (m', o) => let r := run m' ops; (o :: r.1, r.2)

/-! ### plans from dense maps -/

/-- `RewritePlan::from(DenseNatMap<R, V>)` and `from(&DenseNatMap<R, V>)`: `from_values_to_sort(s.values())` -/
def planFromDNM {V} (le : V → V → Bool) (m : List V) : List Nat := planOf le (values m)

def natLe (a b : Nat) : Bool := decide (a ≤ b)

end SR.DNM

/-! ## SipHash-1-3 (std's `DefaultHasher::new()`: keys 0, 0) -/
namespace SR.Sip

structure St where
  v0 : UInt64
  v1 : UInt64
  v2 : UInt64
  v3 : UInt64

def rotl (x : UInt64) (n : UInt64) : UInt64 := (x <<< n) ||| (x >>> (64 - n))

def sipRound (s : St) : St :=
  let v0 := s.v0 + s.v1
  let v1 := rotl s.v1 13
  let v1 := v1 ^^^ v0
  let v0 := rotl v0 32
  let v2 := s.v2 + s.v3
  let v3 := rotl s.v3 16
  let v3 := v3 ^^^ v2
  let v0 := v0 + v3
  let v3 := rotl v3 21
  let v3 := v3 ^^^ v0
  let v2 := v2 + v1
  let v1 := rotl v1 17
  let v1 := v1 ^^^ v2
  let v2 := rotl v2 32
  { v0, v1, v2, v3 }

/-- the little-endian word of (at most 8) bytes -/
def word (bs : List Nat) : Nat := bs.foldr (fun b acc => acc * 256 + b % 256) 0

/-- one message word, c = 1 compression round -/
def compress (s : St) (m : UInt64) : St :=
  let s := { s with v3 := s.v3 ^^^ m }
  let s := sipRound s
  { s with v0 := s.v0 ^^^ m }

/-- absorb whole 8-byte words; the fuel is the byte count; returns the state and the tail (< 8 bytes) -/
def absorb : Nat → St → List Nat → St × List Nat
  | 0, s, bs => (s, bs)
  | fuel + 1, s, bs =>
    if bs.length < 8 then (s, bs)
    else absorb fuel (compress s (UInt64.ofNat (word (bs.take 8)))) (bs.drop 8)

def init (k0 k1 : UInt64) : St :=
  { v0 := k0 ^^^ 0x736f6d6570736575, v1 := k1 ^^^ 0x646f72616e646f6d,
    v2 := k0 ^^^ 0x6c7967656e657261, v3 := k1 ^^^ 0x7465646279746573 }

/-- `SipHasher13::new_with_keys(k0, k1)`, `write(bytes)`, `finish()` -/
def sip13 (k0 k1 : UInt64) (bytes : List Nat) : UInt64 :=
  let (s, tail) := absorb bytes.length (init k0 k1) bytes
  let b : UInt64 := (UInt64.ofNat (bytes.length % 256) <<< 56) ||| UInt64.ofNat (word tail)
  let s := compress s b
  let s := { s with v2 := s.v2 ^^^ 0xff }
  let s := sipRound (sipRound (sipRound s))
  s.v0 ^^^ s.v1 ^^^ s.v2 ^^^ s.v3

/-- `DefaultHasher::new()` then `finish()` over a byte stream -/
def defaultHash (bytes : List Nat) : Nat := (sip13 0 0 bytes).toNat

end SR.Sip

/-! ## the hash-based order of `HashableHashSet` / `HashableHashMap` -/
namespace SR.HOrd
open SR.Hash

/-- the byte stream `HashableHashSet/Map::hash` feeds to a hasher, from the inner (stable-hasher) hashes of the
elements in ITERATION order: `write_usize(len)`, then the sorted hashes by `write_u64`. -/
def stream (hs : List Nat) : List Nat := le 8 hs.length ++ (hs.mergeSort leB).flatMap (le 8)

/-- `calculate_hash(self)` -/
def key (hs : List Nat) : Nat := Sip.defaultHash (stream hs)

/-- `Ord::cmp`: `calculate_hash(self).cmp(&calculate_hash(other))` -/
def cmp (a b : List Nat) : Ordering := compare (key a) (key b)

/-- `PartialOrd::partial_cmp`: `calculate_hash(self).partial_cmp(&calculate_hash(other))` -/
def partialCmp (a b : List Nat) : Option Ordering := some (compare (key a) (key b))

/-! ### serde_json text of the collections with integer elements / keys (iteration order given) -/

/-- `HashSet<int>::serialize` → `serialize_seq`: a JSON array in iteration order -/
def jsonSet (xs : List Nat) : String := "[" ++ ",".intercalate (xs.map toString) ++ "]"

/-- `HashMap<int, int>::serialize` → `serialize_map`: a JSON object, integer keys as strings -/
def jsonMap (ps : List (Nat × Nat)) : String :=
  "{" ++ ",".intercalate (ps.map fun p => "\"" ++ toString p.1 ++ "\":" ++ toString p.2) ++ "}"

end SR.HOrd
