/-
`Id <-> SocketAddrV4` (src/actor/spawn.rs, the two `From` impls).

An `Id` is a `u64` (here: a `Nat`, the code only ever looks at its big-endian bytes); an IPv4
socket address is four octets and a 16-bit port.

  From<Id> for SocketAddrV4:   bytes = id.to_be_bytes();  ip = bytes[2..6];  port = be16(bytes[6], bytes[7])
  From<SocketAddrV4> for Id:   u64::from_be_bytes([0, 0, o0, o1, o2, o3, port_hi, port_lo])
-/
namespace SR.IdCodec

/-- `SocketAddrV4`: octets and port (valid when octets < 256 and port < 65536). -/
structure Addr where
  o0 : Nat
  o1 : Nat
  o2 : Nat
  o3 : Nat
  port : Nat
deriving DecidableEq, Repr, Inhabited

def Addr.Valid (a : Addr) : Prop :=
  a.o0 < 256 ∧ a.o1 < 256 ∧ a.o2 < 256 ∧ a.o3 < 256 ∧ a.port < 65536

instance (a : Addr) : Decidable a.Valid := by unfold Addr.Valid; infer_instance

/-- `id.to_be_bytes()[i]` for `i < 8` -/
def beByte (id i : Nat) : Nat := (id >>> (8 * (7 - i))) % 256

/-- `u64::from_be_bytes` (positional value of a big-endian byte list) -/
def fromBe (bs : List Nat) : Nat := bs.foldl (fun acc b => acc * 256 + b) 0

/-- `SocketAddrV4::from(id)` -/
def addrOf (id : Nat) : Addr :=
  ⟨beByte id 2, beByte id 3, beByte id 4, beByte id 5, beByte id 6 * 256 + beByte id 7⟩

/-- `Id::from(addr)`: `u64::from_be_bytes([0, 0, o0, o1, o2, o3, port_hi, port_lo])`, written out
(`idOf_eq_fromBe` in Proofs/IdCodec.lean) -/
def idOf (a : Addr) : Nat :=
  (((((((0 * 256 + 0) * 256 + a.o0) * 256 + a.o1) * 256 + a.o2) * 256 + a.o3) * 256 + a.port / 256) * 256
    + a.port % 256)

/-- the declarative reading: the id is the 48-bit number `ip : port` -/
def idSpec (a : Addr) : Nat :=
  (((a.o0 * 256 + a.o1) * 256 + a.o2) * 256 + a.o3) * 65536 + a.port

end SR.IdCodec
