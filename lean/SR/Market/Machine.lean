/-!
# The job market (src/job_market.rs) as a transition system

State = the fields of `JobMarket` behind the mutex (`open`, `thread_count`, `open_count`,
`job_batches`) + per logical worker a program counter (`running` / `parked notified?` / `exited`) and its
local deque + ghost fields for the conservation statement. Jobs are opaque tokens.

One `Step` = one critical section of job_market.rs (everything a thread does between acquiring the
mutex and releasing it, where `Condvar::wait` releases it):

* `popBegin w`   — `pop()` up to its return or its first `wait`
* `wake w`       — return from `wait` (notified, or spuriously): `open_count += 1` and the loop body again
* `push w n picks` / `xpush toks picks` — `push()` by a worker (the first `n` jobs of its deque) / by the owner of
                   the checker (fresh jobs: the initial states)
* `split w picks`— `split_and_push(&mut local)`
* `rearrange w l` — no market operation either: the worker reorders its own deque (`l` must be a permutation of it).
                   With it `work` covers every queue discipline: BFS pops at the back and pushes at the front (`work`
                   as it stands), DFS pushes at the back, on-demand drains from the front = `work` + `rearrange`.
* `work w c fresh` — no market operation: the worker consumes `c` jobs from the back of its deque and
                   generates `fresh` new ones (what `check_block` does to `pending`)
* `drop w`       — `Drop` of a worker's clone: the thread returns or unwinds (panic in model code)
* `xdrop`        — `Drop` of ANY other clone: the handle kept by the checker object, the timeout thread's
* `timeoutFire`  — the timeout thread's first critical section: `market.open = false`, nothing else
* `is_closed()` / `is_shut_down()` are reads: `isClosed`, `isShutDown` below.

`notify_one` wakes one thread that is waiting and has not been notified yet, if there is one; WHICH one is
the implementation's choice and therefore an input (`picks`), checked for admissibility (`picksOk`).
`notify_all` notifies every waiting thread. A notification reaches only threads that are already waiting
(the caller holds the mutex). A notified thread runs its `wake` step later, when it gets the mutex.
-/
namespace SR.Market

abbrev Tok := Nat

inductive Pc where
  | running
  | parked (notified : Bool)
  | exited
deriving DecidableEq, Repr, Inhabited

structure MState where
  isOpen : Bool
  threadCount : Nat
  openCount : Nat
  /-- `job_batches`; head = the batch pushed last = the one `Vec::pop` returns. A batch lists its jobs
      front to back. -/
  batches : List (List Tok)
  pcs : List Pc
  /-- per worker: its local deque (`pending`), front to back -/
  locs : List (List Tok)
  /-- ghost: every job ever created (initial pushes and `work`) -/
  created : List Tok
  /-- ghost: every job a worker has consumed (evaluated) -/
  consumed : List Tok
  /-- ghost: some clone of the broker has been dropped -/
  dropped : Bool
deriving DecidableEq, Repr, Inhabited

/-- `JobBroker::new(thread_count, _)` seen by `k` logical workers (the checkers use `k = thread_count`) -/
def init (k tc : Nat) : MState :=
  { isOpen := true, threadCount := tc, openCount := tc, batches := [],
    pcs := List.replicate k .running, locs := List.replicate k [],
    created := [], consumed := [], dropped := false }

/-- `is_shut_down()` -/
def isShutDown (s : MState) : Bool := !s.isOpen
/-- `is_closed()` -/
def isClosed (s : MState) : Bool := !s.isOpen && s.batches.isEmpty && s.openCount == 0

/-- `notify_all` -/
def notifyAll (pcs : List Pc) : List Pc :=
  pcs.map fun p => match p with
    | .parked _ => .parked true
    | p => p

/-- the `notify_one`s of one critical section, resolved by the implementation's choices -/
def notifyPicks (pcs : List Pc) : List Nat → List Pc
  | [] => pcs
  | v :: vs => notifyPicks (if pcs[v]? = some (.parked false) then pcs.set v (.parked true) else pcs) vs

def nodupB : List Nat → Bool
  | [] => true
  | x :: xs => !xs.contains x && nodupB xs

/-- `picks` is an admissible resolution of `n` calls of `notify_one`: distinct workers, each waiting and
    not yet notified, and as many as there are calls unless the waiters run out first -/
def picksOk (pcs : List Pc) (picks : List Nat) (n : Nat) : Bool :=
  nodupB picks && picks.all (fun v => pcs[v]? == some (.parked false)) &&
    picks.length == min n (pcs.count (.parked false))

inductive PopRes where
  | got (b : List Tok)
  | empty
  | park
deriving DecidableEq, Repr, Inhabited

/-- the body of `pop`'s `loop`, executed by worker `w` holding the lock -/
def popLoop (s : MState) (w : Nat) : MState × PopRes :=
  match s.batches with
  | b :: rest =>
    ({ s with batches := rest, pcs := s.pcs.set w .running,
              locs := s.locs.set w (s.locs.getD w [] ++ b) }, .got b)
  | [] =>
    let oc := s.openCount - 1            -- saturating_sub(1)
    if oc == 0 then
      -- last running worker: notify_all, close, return empty
      ({ s with openCount := 0, isOpen := false, pcs := notifyAll (s.pcs.set w .running) }, .empty)
    else
      ({ s with openCount := oc, pcs := s.pcs.set w (.parked false) }, .park)

/-- the `for _ in 1..pieces` loop of `split_and_push`: `k` iterations, each `split_off(len - size)`
    from the back; empty pieces are skipped -/
def splitLoop : Nat → Nat → List Tok → List (List Tok) → List Tok × List (List Tok)
  | 0, _, loc, bs => (loc, bs)
  | k + 1, size, loc, bs =>
    let keep := loc.take (loc.length - size)
    let share := loc.drop (loc.length - size)
    if share.isEmpty then splitLoop k size keep bs else splitLoop k size keep (share :: bs)

/-- `pieces` and `size` of `split_and_push` -/
def splitPieces (s : MState) (len : Nat) : Nat := 1 + min (s.threadCount - s.openCount) len
def splitSize (s : MState) (len : Nat) : Nat := len / splitPieces s len

inductive Step where
  | popBegin (w : Nat)
  | wake (w : Nat)
  | push (w n : Nat) (picks : List Nat)
  | xpush (toks : List Tok) (picks : List Nat)
  | split (w : Nat) (picks : List Nat)
  | work (w c : Nat) (fresh : List Tok)
  | rearrange (w : Nat) (l : List Tok)
  | drop (w : Nat)
  | xdrop
  | timeoutFire
deriving DecidableEq, Repr, Inhabited

/-- new jobs are new objects: no repetition, none seen before -/
def freshOk (s : MState) (toks : List Tok) : Bool :=
  nodupB toks && toks.all (fun t => !s.created.contains t)

/-- `Drop for JobBroker` (the market part; the caller fixes its own pc) -/
def dropMarket (s : MState) : MState :=
  { s with isOpen := false, batches := [], openCount := s.openCount - 1, pcs := notifyAll s.pcs,
           dropped := true }

/-- one critical section; `none` = the step is not enabled in `s`. The second component is the value
    `pop` returns (or `park`) for the two pop steps. -/
def stepR (s : MState) : Step → Option (MState × Option PopRes)
  | .popBegin w =>
    if s.pcs[w]? = some .running then
      if !s.isOpen then some (s, some .empty)
      else let (s', r) := popLoop s w; some (s', some r)
    else none
  | .wake w =>
    match s.pcs[w]? with
    | some (.parked _) =>
      -- `market.open_count += 1` and round the loop again (`open` is NOT re-read)
      let (s', r) := popLoop { s with openCount := s.openCount + 1 } w
      some (s', some r)
    | _ => none
  | .push w n picks =>
    if s.pcs[w]? = some .running then
      if !s.isOpen then
        -- the batch is dropped with the call
        if picks.isEmpty then some ({ s with locs := s.locs.set w ((s.locs.getD w []).drop n) }, none) else none
      else if picksOk s.pcs picks 1 then
        some ({ s with batches := (s.locs.getD w []).take n :: s.batches,
                       locs := s.locs.set w ((s.locs.getD w []).drop n),
                       pcs := notifyPicks s.pcs picks }, none)
      else none
    else none
  | .xpush toks picks =>
    if freshOk s toks then
      if !s.isOpen then
        if picks.isEmpty then some ({ s with created := toks ++ s.created, consumed := toks ++ s.consumed }, none) else none
      else if picksOk s.pcs picks 1 then
        some ({ s with batches := toks :: s.batches, created := toks ++ s.created,
                       pcs := notifyPicks s.pcs picks }, none)
      else none
    else none
  | .split w picks =>
    if s.pcs[w]? = some .running then
      if !s.isOpen then
        -- `jobs.clear()`
        if picks.isEmpty then some ({ s with locs := s.locs.set w [] }, none) else none
      else
        let loc := s.locs.getD w []
        let (loc', bs') := splitLoop (splitPieces s loc.length - 1) (splitSize s loc.length) loc s.batches
        if picksOk s.pcs picks (bs'.length - s.batches.length) then
          some ({ s with batches := bs', locs := s.locs.set w loc', pcs := notifyPicks s.pcs picks }, none)
        else none
    else none
  | .work w c fresh =>
    if s.pcs[w]? = some .running && freshOk s fresh then
      let loc := s.locs.getD w []
      some ({ s with locs := s.locs.set w (fresh ++ loc.take (loc.length - c)),
                     consumed := loc.drop (loc.length - c) ++ s.consumed,
                     created := fresh ++ s.created }, none)
    else none
  | .rearrange w l =>
    if s.pcs[w]? = some .running && l.isPerm (s.locs.getD w []) then
      some ({ s with locs := s.locs.set w l }, none)
    else none
  | .drop w =>
    if s.pcs[w]? = some .running then
      let s' := dropMarket s
      some ({ s' with pcs := s'.pcs.set w .exited, locs := s'.locs.set w [] }, none)
    else none
  | .xdrop => some (dropMarket s, none)
  | .timeoutFire => some ({ s with isOpen := false }, none)

def step (s : MState) (m : Step) : Option MState := (stepR s m).map (·.1)

/-- run a step sequence; a step that is not enabled is skipped (so the theorems, which quantify over ALL
    step lists, quantify over all schedules) -/
def mrun (s : MState) (ms : List Step) : MState := ms.foldl (fun s m => (step s m).getD s) s

/-- all jobs currently held somewhere: shared batches and local deques -/
def tokensIn (s : MState) : List Tok := s.batches.flatten ++ s.locs.flatten

end SR.Market
