import SR.Util.IdCodec
/-
The UDP runtime loop of `spawn()` (src/actor/spawn.rs) for ONE actor thread, as a state machine
over an abstract monotone clock (`Nat`, any unit; the driver uses microseconds).

The actor itself is the environment: an event that calls a handler carries what the handler was
given (`stIn`) and what it returned (`out`, `cmds`), exactly what an instrumented actor can log.
The machine is the runtime's side of the contract:

  * `start`          `actor.on_start(id, &mut out)`; then the commands are executed one by one
  * `exec t pick`    `on_command` for the head of the command queue; `t` is the `Instant::now()` read
                     inside `on_command`, `pick` resolves `gen_range` / `choose`
  * loop iteration (only when the queue is empty):
      - `msg`        recv branch (every deadline is later than the clock reading), datagram from an
                     IPv4 source that deserializes: `on_msg(id, state, Id::from(src), msg, out)`
      - `drop`       recv branch, datagram that does not deserialize or has a non-IPv4 source: ignored
      - `idle`       recv branch, read timeout / socket error: `continue`
      - `zeroWait`   recv branch with a deadline EQUAL to the clock reading: `set_read_timeout(Some(0))`
                     is an `Err` in std, `.expect(..)` panics, the actor thread dies
      - `fire k`     a deadline is earlier than the clock reading: the minimum-deadline entry is removed and
                     `on_timeout` / `on_random` is called

`strict = false` gives the ACCEPTANCE machine used to replay real logs, where deadlines are only
known from below: a fire needs an armed entry whose (lower-bound) deadline has passed, minimality
and the recv-branch test are not demanded, and `ChooseRandom` arms every candidate at once (keeping an earlier lower bound)
(`Proofs/RuntimeAccept.lean` proves that every strict run is accepted after canonisation).
-/
namespace SR.Loop
open SR.IdCodec

abbrev Bytes := List Nat

/-- `Interrupt<T, R>` -/
inductive Key (τ ρ : Type) where
  | timeout (t : τ)
  | random (r : ρ)
deriving DecidableEq, Repr

/-- `Command<Msg, Timer, Random>`; durations in clock units -/
inductive Cmd (μ τ ρ : Type) where
  | send (dst : Nat) (m : μ)
  | set (t : τ) (lo hi : Nat)
  | cancel (t : τ)
  | choose (key : String) (vals : List ρ)
deriving Repr

/-- source address of a datagram: IPv4 or something else (IPv6) -/
inductive Src where
  | v4 (a : Addr)
  | other
deriving DecidableEq, Repr

/-- a handler invocation as an instrumented actor sees it -/
inductive Call (σ μ τ ρ : Type) where
  | start (t : Nat) (out : σ) (cmds : List (Cmd μ τ ρ))
  | msg (t : Nat) (stIn : σ) (src : Nat) (m : μ) (out : σ) (cmds : List (Cmd μ τ ρ))
  | timeout (t : Nat) (stIn : σ) (k : τ) (out : σ) (cmds : List (Cmd μ τ ρ))
  | random (t : Nat) (stIn : σ) (r : ρ) (out : σ) (cmds : List (Cmd μ τ ρ))

/-- what happened to a timer, in order (ghost history) -/
inductive TObs (τ : Type) where
  | armed (k : τ) (t lo : Nat)
  | cancelled (k : τ) (t : Nat)
  | fired (k : τ) (t : Nat)
deriving DecidableEq, Repr

inductive Ev (σ μ τ ρ : Type) where
  | start (t : Nat) (out : σ) (cmds : List (Cmd μ τ ρ))
  | exec (t pick : Nat)
  | msg (t : Nat) (a : Addr) (bytes : Bytes) (stIn out : σ) (cmds : List (Cmd μ τ ρ))
  | drop (t : Nat) (src : Src) (bytes : Bytes)
  | idle (t : Nat)
  | zeroWait (t : Nat)
  | fire (t : Nat) (k : Key τ ρ) (stIn out : σ) (cmds : List (Cmd μ τ ρ))

/-- `practically_never()`: 500 years, in microseconds -/
def never : Nat := 3600 * 24 * 365 * 500 * 1000000
/-- upper end of the `ChooseRandom` delay: 10 s in microseconds -/
def tenSec : Nat := 10 * 1000000

structure Cfg (μ : Type) where
  id : Nat
  ser : μ → Option Bytes
  de : Bytes → Option μ
  strict : Bool := true
  never : Nat := SR.Loop.never
  chooseSpan : Nat := SR.Loop.tenSec

structure St (σ μ τ ρ : Type) where
  now : Nat := 0
  dead : Bool := false
  st : Option σ := none
  ints : List (Key τ ρ × Nat) := []
  queue : List (Cmd μ τ ρ) := []
  -- ghost logs
  calls : List (Call σ μ τ ρ) := []
  sent : List (Addr × Bytes) := []
  recvd : List (Src × Bytes) := []
  hist : List (TObs τ) := []

variable {σ μ τ ρ : Type} [DecidableEq τ] [DecidableEq ρ]

def init : St σ μ τ ρ := {}

/-- `entry(k).and_modify(|d| *d = v).or_insert(v)` -/
def setInt (ints : List (Key τ ρ × Nat)) (k : Key τ ρ) (v : Nat) : List (Key τ ρ × Nat) :=
  if ints.any (fun e => e.1 = k) then ints.map (fun e => if e.1 = k then (k, v) else e)
  else ints ++ [(k, v)]

/-- `entry(k).and_modify(|d| *d = v)` -/
def modInt (ints : List (Key τ ρ × Nat)) (k : Key τ ρ) (v : Nat) : List (Key τ ρ × Nat) :=
  ints.map (fun e => if e.1 = k then (k, v) else e)

/-- acceptance machine only: arm `k` at `v` unless an earlier lower bound is already known -/
def armMin (ints : List (Key τ ρ × Nat)) (k : Key τ ρ) (v : Nat) : List (Key τ ρ × Nat) :=
  if ints.any (fun e => e.1 = k) then ints.map (fun e => if e.1 = k then (k, min e.2 v) else e)
  else ints ++ [(k, v)]

def eraseInt (ints : List (Key τ ρ × Nat)) (k : Key τ ρ) : List (Key τ ρ × Nat) :=
  ints.filter (fun e => e.1 ≠ k)

/-- `on_command` at clock reading `t` -/
def execCmd (C : Cfg μ) (s : St σ μ τ ρ) (c : Cmd μ τ ρ) (t pick : Nat) : St σ μ τ ρ :=
  match c with
  | .send dst m =>
    match C.ser m with
    | none => s
    | some b => { s with sent := s.sent ++ [(addrOf dst, b)] }
  | .set k lo hi =>
    let d := if lo < hi then lo + pick % (hi - lo) else lo
    { s with ints := setInt s.ints (.timeout k) (t + d), hist := s.hist ++ [.armed k t lo] }
  | .cancel k =>
    { s with ints := modInt s.ints (.timeout k) (t + C.never), hist := s.hist ++ [.cancelled k t] }
  | .choose _ vals =>
    match vals with
    | [] => s
    | v0 :: rest =>
      if C.strict then
        let v := (v0 :: rest).getD (pick % (v0 :: rest).length) v0
        let d := (pick / (v0 :: rest).length) % C.chooseSpan
        { s with ints := setInt s.ints (.random v) (t + d) }
      else
        { s with ints := (v0 :: rest).foldl (fun acc v => armMin acc (.random v) t) s.ints }

/-- the loop took the recv branch for some clock reading `≥ now`: every deadline is still ahead -/
def recvBranch (C : Cfg μ) (s : St σ μ τ ρ) : Bool :=
  !C.strict || s.ints.all (fun e => s.now < e.2)

/-- `k` may fire when the clock reads `t`: an entry of `k` is overdue (and minimal, when strict) -/
def fireable (C : Cfg μ) (s : St σ μ τ ρ) (k : Key τ ρ) (t : Nat) : Bool :=
  s.ints.any (fun e => e.1 = k && e.2 < t && (!C.strict || s.ints.all (fun e' => e.2 ≤ e'.2)))

def fireCall (t : Nat) (k : Key τ ρ) (stIn out : σ) (cmds : List (Cmd μ τ ρ)) : Call σ μ τ ρ :=
  match k with
  | .timeout x => .timeout t stIn x out cmds
  | .random r => .random t stIn r out cmds

def fireHist (t : Nat) (k : Key τ ρ) : List (TObs τ) :=
  match k with
  | .timeout x => [.fired x t]
  | .random _ => []

/-- one step; `none` = the event is not enabled -/
def step [DecidableEq σ] (C : Cfg μ) (s : St σ μ τ ρ) : Ev σ μ τ ρ → Option (St σ μ τ ρ)
  | .start t out cmds =>
    if !s.dead && s.st.isNone && s.queue.isEmpty && s.now ≤ t then
      some { s with now := t, st := some out, queue := cmds, calls := s.calls ++ [.start t out cmds] }
    else none
  | .exec t pick =>
    match s.queue with
    | [] => none
    | c :: q => if !s.dead && s.now ≤ t then some (execCmd C { s with now := t, queue := q } c t pick) else none
  | .msg t a bytes stIn out cmds =>
    match C.de bytes with
    | none => none
    | some m =>
      if !s.dead && s.st = some stIn && s.queue.isEmpty && s.now ≤ t && recvBranch C s then
        some { s with now := t, st := some out, queue := cmds,
                      calls := s.calls ++ [.msg t stIn (idOf a) m out cmds],
                      recvd := s.recvd ++ [(.v4 a, bytes)] }
      else none
  | .drop t src bytes =>
    if !s.dead && s.st.isSome && s.queue.isEmpty && s.now ≤ t && recvBranch C s
        && ((C.de bytes).isNone || src = .other) then
      some { s with now := t, recvd := s.recvd ++ [(src, bytes)] }
    else none
  | .idle t =>
    if !s.dead && s.st.isSome && s.queue.isEmpty && s.now ≤ t && recvBranch C s then
      some { s with now := t }
    else none
  | .zeroWait t =>
    if !s.dead && s.st.isSome && s.queue.isEmpty && s.now ≤ t
        && (!C.strict || (s.ints.any (fun e => e.2 = t) && s.ints.all (fun e => t ≤ e.2))) then
      some { s with now := t, dead := true }
    else none
  | .fire t k stIn out cmds =>
    if !s.dead && s.st = some stIn && s.queue.isEmpty && s.now ≤ t && fireable C s k t then
      some { s with now := t, st := some out, queue := cmds, ints := eraseInt s.ints k,
                    calls := s.calls ++ [fireCall t k stIn out cmds],
                    hist := s.hist ++ fireHist t k }
    else none

/-- run an event list; `none` as soon as an event is not enabled -/
def run [DecidableEq σ] (C : Cfg μ) (s : St σ μ τ ρ) : List (Ev σ μ τ ρ) → Option (St σ μ τ ρ)
  | [] => some s
  | e :: es => match step C s e with
    | none => none
    | some s' => run C s' es

/-- index of the first event that is not enabled (for the replay message) -/
def firstRejected [DecidableEq σ] (C : Cfg μ) (s : St σ μ τ ρ) : List (Ev σ μ τ ρ) → Nat → Option Nat
  | [], _ => none
  | e :: es, i => match step C s e with
    | none => some i
    | some s' => firstRejected C s' es (i + 1)

/-! ### Observable log and its canonical event list (the ACCEPTANCE PREDICATE) -/

/-- what a log line of an instrumented actor contains: the handler event (with the datagram that
backs an `on_msg`, found by the oracle among the datagrams really sent) — the `exec` steps are not
observable and are re-inserted at the handler's own time stamp with `pick = 0`. -/
def evTime : Ev σ μ τ ρ → Nat
  | .start t _ _ => t
  | .exec t _ => t
  | .msg t _ _ _ _ _ => t
  | .drop t _ _ => t
  | .idle t => t
  | .zeroWait t => t
  | .fire t _ _ _ _ => t

def evCmds : Ev σ μ τ ρ → List (Cmd μ τ ρ)
  | .start _ _ cmds => cmds
  | .msg _ _ _ _ _ cmds => cmds
  | .fire _ _ _ _ cmds => cmds
  | _ => []

/-- the events that call a handler (what an instrumented actor logs) -/
def isHandler : Ev σ μ τ ρ → Bool
  | .start _ _ _ => true
  | .msg _ _ _ _ _ _ => true
  | .fire _ _ _ _ _ => true
  | _ => false

/-- canonical (observable) form of an event list: every `exec` is replaced by one at the time of
the handler event it belongs to, with `pick = 0` (earliest possible deadline); loop iterations that
call no handler (`idle`, `drop`, `zeroWait`) are invisible and removed -/
def canonAux : Nat → List (Ev σ μ τ ρ) → List (Ev σ μ τ ρ)
  | _, [] => []
  | th, .exec _ _ :: es => .exec th 0 :: canonAux th es
  | th, .idle _ :: es => canonAux th es
  | th, .drop _ _ _ :: es => canonAux th es
  | th, .zeroWait _ :: es => canonAux th es
  | _, .start t out cmds :: es => .start t out cmds :: canonAux t es
  | _, .msg t a b i o c :: es => .msg t a b i o c :: canonAux t es
  | _, .fire t k i o c :: es => .fire t k i o c :: canonAux t es

def canon (es : List (Ev σ μ τ ρ)) : List (Ev σ μ τ ρ) := canonAux 0 es

/-- a log (handler events only) expanded with its command executions -/
def expand : List (Ev σ μ τ ρ) → List (Ev σ μ τ ρ)
  | [] => []
  | e :: es => e :: ((evCmds e).map (fun _ => Ev.exec (evTime e) 0) ++ expand es)

/-- ACCEPTANCE PREDICATE: every logged handler event, followed by the execution of its commands,
is an enabled step of the (non-strict) machine. -/
def relax (C : Cfg μ) : Cfg μ := { C with strict := false }

def accepts [DecidableEq σ] (C : Cfg μ) (log : List (Ev σ μ τ ρ)) : Bool :=
  (run (relax C) init (expand log)).isSome

/-! ### projections used by the property statements -/

def Call.inSt : Call σ μ τ ρ → Option σ
  | .start _ _ _ => none
  | .msg _ s _ _ _ _ => some s
  | .timeout _ s _ _ _ => some s
  | .random _ s _ _ _ => some s

def Call.outSt : Call σ μ τ ρ → σ
  | .start _ o _ => o
  | .msg _ _ _ _ o _ => o
  | .timeout _ _ _ o _ => o
  | .random _ _ _ o _ => o

def Call.cmds : Call σ μ τ ρ → List (Cmd μ τ ρ)
  | .start _ _ c => c
  | .msg _ _ _ _ _ c => c
  | .timeout _ _ _ _ c => c
  | .random _ _ _ _ c => c

def Call.isStart : Call σ μ τ ρ → Bool
  | .start _ _ _ => true
  | _ => false

/-- each handler is given the state the previous one left; only the first call has no input state -/
def Threaded : Option σ → List (Call σ μ τ ρ) → Prop
  | _, [] => True
  | cur, c :: rest => c.inSt = cur ∧ Threaded (some c.outSt) rest

def TObs.key : TObs τ → τ
  | .armed k _ _ => k
  | .cancelled k _ => k
  | .fired k _ => k

def TObs.time : TObs τ → Nat
  | .armed _ t _ => t
  | .cancelled _ t => t
  | .fired _ t => t

/-- the last thing that happened to timer `k` -/
def lastOn (k : τ) (h : List (TObs τ)) : Option (TObs τ) :=
  (h.filter (fun o => o.key = k)).getLast?

/-- the `(src id, msg)` pairs of the `on_msg` calls -/
def msgCalls : List (Call σ μ τ ρ) → List (Nat × μ)
  | [] => []
  | .msg _ _ src m _ _ :: r => (src, m) :: msgCalls r
  | _ :: r => msgCalls r

/-- what a received datagram must turn into -/
def decodeDatagram (C : Cfg μ) : Src × Bytes → Option (Nat × μ)
  | (.v4 a, b) => (C.de b).map (fun m => (idOf a, m))
  | (.other, _) => none

/-- the datagram a command must produce -/
def sendOf (C : Cfg μ) : Cmd μ τ ρ → Option (Addr × Bytes)
  | .send dst m => (C.ser m).map (fun b => (addrOf dst, b))
  | _ => none

def allCmds (cs : List (Call σ μ τ ρ)) : List (Cmd μ τ ρ) := cs.flatMap Call.cmds

end SR.Loop
