import SR.Runtime.Loop
import SR.Actor.Spec
/-
What runs under `spawn()` (src/actor/spawn.rs) as ONE transition system: `sys.n` actor threads, each running the
loop of `SR/Runtime/Loop.lean`, connected by UDP.

The actors are given by the SAME object the actor model is built from: an `ActorSys σ η` (handler functions
`start / msg / timeout / random`; a handler result `HRes.ok ns cmds` has `ns = none` ⇔ the state was left
`Cow::Borrowed`).  Only the handler tables and `n` are read by the runtime semantics (plus the history hooks, for
the ghost history); `lossy`, `maxCrashes`, `initNet` are parameters of the MODEL only.

Per actor thread the loop state of `Loop.lean` is reduced to what matters for the bridge:
  * `st i : Option σ`        `none` = the thread has not yet run `on_start` (its socket is not bound);
  * `ints i : key ↦ deadline` `next_interrupts` (`Loop.Key`, `Loop.setInt / modInt / eraseInt`), insertion order.
Shared: the clock `now` and the datagrams `flight` in flight, a MULTISET (list): UDP may lose, duplicate and
reorder them.

Steps (`Lbl`):
  * `start i picks`        thread `i` binds its socket, runs `on_start` and executes its commands;
  * `deliver e keep picks` a datagram in flight reaches the (started) thread `e.dst`: `on_msg(id, state, src, msg)`,
                           then the commands.  `keep = true`: the datagram stays in flight as well (duplication);
  * `lose e`               one copy of a datagram in flight is lost (also: the destination is no actor, or its
                           thread has not bound its socket yet, or `send_to`/`serialize` failed);
  * `fire i k picks`       an interrupt of thread `i` whose deadline has passed (`deadline < now`: at `deadline = now` the code takes the receive branch with a zero read timeout and the thread dies, `Loop.Ev.zeroWait`) is removed and
                           `on_timeout` / `on_random` runs (the code fires the MINIMUM overdue entry, strictly
                           overdue; any overdue entry is an over-approximation);
  * `tick t`               the clock advances to `t` (`now ≤ t < never`).
Commands as `on_command` does: `send` puts a datagram in flight; `setTimer` arms `Timeout(t)` at `now + pick`;
`cancelTimer` parks an EXISTING entry at `now + never` (`practically_never()`), it does not remove it;
`chooseRandom _key vals` ignores the key, does nothing for an empty list, else arms `Random(v)` for one chosen `v`.
`picks` resolves `gen_range` / `choose`, one pick per command (the model's `SetTimer` carries no range: every
duration is allowed, which also covers the time that passes between the commands of one handler).

ASSUMPTIONS (visible as guards):
  * horizon: the clock stays below `never` (500 years) and no timer is armed beyond it (`now + pick < never`);
    beyond the horizon a cancelled (parked) timer fires in the code, which no model has;
  * a handler that panics kills its thread in the code: here such a step is not enabled (the datagram it consumed
    is `lose`, the thread is silent afterwards — a sub-behaviour of what is modelled);
  * the `zeroWait` death of `Loop.lean` (deadline = clock reading) likewise only silences a thread;
  * ids: actor `i` has id `i` (the model's `Id::from(index)`); under `spawn()` the ids are socket addresses, and
    `Props/C17.lean` (a) proves the codec is a bijection on 48-bit ids, so the sender id seen by `on_msg` is the
    sender's id; serialisation is assumed to round-trip; no datagrams from outside the system.

GHOSTS (never read by a guard): `last` = the last datagram whose delivery was not a no-op (`last_msg` of the
model's duplicating network), `hist` = the model's history value.  The model starts all actors in its initial
state; the runtime starts them one by one, interleaved with everything else, so the history of the `on_start`
sends is pre-recorded in index order at time 0 (as `init_states` does) and `start` leaves it alone.
-/
namespace SR.RtSys
open SR.Actor

abbrev Key := SR.Loop.Key Nat Nat
abbrev Ints := List (Key × Nat)

/-- `practically_never()` offset and the `ChooseRandom` span, in clock units (µs), as in `Loop.lean` -/
abbrev never : Nat := SR.Loop.never
abbrev tenSec : Nat := SR.Loop.tenSec

structure RSt (σ η : Type) where
  now : Nat
  st : Nat → Option σ
  ints : Nat → Ints
  flight : List Env
  last : Option Env
  hist : η

/-- the part of the state `on_command` touches: this thread's interrupts and the datagrams in flight -/
structure Loc where
  ints : Ints
  flight : List Env

/-- point update -/
def upd {α : Type} (f : Nat → α) (i : Nat) (v : α) : Nat → α := fun j => if j = i then v else f j

variable {σ η : Type}

/-- `on_command` of thread `i` at clock reading `now`, `p` = the random pick -/
def execCmd (i now : Nat) (L : Loc) (p : Nat) : Cmd → Loc
  | .send d m => { L with flight := L.flight ++ [⟨i, d, m⟩] }
  | .setTimer t => { L with ints := SR.Loop.setInt L.ints (.timeout t) (now + p) }
  | .cancelTimer t => { L with ints := SR.Loop.modInt L.ints (.timeout t) (now + never) }
  | .chooseRandom _ vals =>
    match vals with
    | [] => L
    | v0 :: rest =>
      let vs := v0 :: rest
      { L with ints := SR.Loop.setInt L.ints (.random (vs.getD (p % vs.length) v0)) (now + (p / vs.length) % tenSec) }

/-- `for c in out { on_command(..) }`, one pick per command (0 when the picks run out) -/
def execCmds (i now : Nat) : List Cmd → List Nat → Loc → Loc
  | [], _, L => L
  | c :: cs, ps, L => execCmds i now cs ps.tail (execCmd i now L (ps.headD 0) c)

/-- no pick arms a timer beyond the horizon -/
def picksOk (now : Nat) (picks : List Nat) : Bool := picks.all (fun p => now + p < never)

inductive Lbl where
  | start (i : Nat) (picks : List Nat)
  | deliver (e : Env) (keep : Bool) (picks : List Nat)
  | lose (e : Env)
  | fire (i : Nat) (k : Key) (picks : List Nat)
  | tick (t : Nat)
deriving DecidableEq, Repr

/-- the handler an interrupt invokes -/
def handlerK (sys : ActorSys σ η) (i : Nat) (s : σ) : Key → HRes σ
  | .timeout t => (sys.actor i).timeout i s t
  | .random r => (sys.actor i).random i s r

/-- thread `i` leaves a handler with state `s'` and commands `cmds`; `ints0 / fl0` = its interrupts and the
datagrams in flight when the handler returned; `last / hist` = the ghosts after the step -/
def finish (rs : RSt σ η) (i : Nat) (s' : σ) (ints0 : Ints) (fl0 : List Env) (last : Option Env) (hist : η)
    (cmds : List Cmd) (picks : List Nat) : RSt σ η :=
  let L := execCmds i rs.now cmds picks ⟨ints0, fl0⟩
  { now := rs.now, st := upd rs.st i (some s'), ints := upd rs.ints i L.ints, flight := L.flight,
    last := last, hist := hist }

/-- the `on_start` sends of all actors, in index order -/
def startSends (sys : ActorSys σ η) : List Env :=
  (List.range sys.n).flatMap (fun i => sendsOf i ((sys.actor i).start i).2)

/-- nothing has happened: no thread started, nothing in flight, clock 0 -/
def rinit (sys : ActorSys σ η) : RSt σ η :=
  { now := 0, st := fun _ => none, ints := fun _ => [], flight := [], last := none,
    hist := recordOuts sys sys.initHist (startSends sys) }

/-- one step; `none` = not enabled -/
def rstep (sys : ActorSys σ η) (rs : RSt σ η) : Lbl → Option (RSt σ η)
  | .tick t => if rs.now ≤ t ∧ t < never then some { rs with now := t } else none
  | .lose e => if e ∈ rs.flight then some { rs with flight := rs.flight.erase e } else none
  | .start i picks =>
    if i < sys.n ∧ rs.st i = none ∧ picksOk rs.now picks = true then
      some (finish rs i ((sys.actor i).start i).1 (rs.ints i) rs.flight rs.last rs.hist
              ((sys.actor i).start i).2 picks)
    else none
  | .deliver e keep picks =>
    match rs.st e.dst with
    | none => none
    | some s =>
      if e.dst < sys.n ∧ e ∈ rs.flight ∧ picksOk rs.now picks = true then
        match (sys.actor e.dst).msg e.dst s e.src e.msg with
        | .panic => none
        | .ok ns cmds =>
          let fl := if keep then rs.flight else rs.flight.erase e
          let noop := isNoOp ns cmds
          some (finish rs e.dst (ns.getD s) (rs.ints e.dst) fl
                  (if noop then rs.last else some e)
                  (if noop then rs.hist
                   else recordOuts sys ((sys.recordIn rs.hist e).getD rs.hist) (sendsOf e.dst cmds))
                  cmds picks)
      else none
  | .fire i k picks =>
    match rs.st i with
    | none => none
    | some s =>
      if i < sys.n ∧ (rs.ints i).any (fun en => en.1 = k && en.2 < rs.now) = true ∧ picksOk rs.now picks = true then
        match handlerK sys i s k with
        | .panic => none
        | .ok ns cmds =>
          some (finish rs i (ns.getD s) (SR.Loop.eraseInt (rs.ints i) k) rs.flight rs.last
                  (recordOuts sys rs.hist (sendsOf i cmds)) cmds picks)
      else none

/-- run a label list; `none` as soon as a step is not enabled -/
def rrun (sys : ActorSys σ η) (rs : RSt σ η) : List Lbl → Option (RSt σ η)
  | [] => some rs
  | l :: ls => (rstep sys rs l).bind (fun rs' => rrun sys rs' ls)

/-! ### the abstraction onto `ActorSys` states -/

/-- a duplicate-free sorted list from any list (`sins` = the model's set insert) -/
def mkSet {α : Type} [DecidableEq α] (lt : α → α → Bool) (l : List α) : List α :=
  l.foldl (fun acc a => sins lt a acc) []

/-- the timers that are armed: `Timeout` entries whose deadline is before `never` (not parked by a cancel) -/
def armed (ints : Ints) : List Nat :=
  ints.filterMap (fun en => match en.1 with
    | .timeout t => if en.2 < never then some t else none
    | .random _ => none)

/-- the `on_start` sends of the threads that have not started yet -/
def pending (sys : ActorSys σ η) (rs : RSt σ η) : List Env :=
  (List.range sys.n).flatMap (fun i => if (rs.st i).isNone then sendsOf i ((sys.actor i).start i).2 else [])

/-- The abstraction.  A thread that has not started yet is seen as the model sees it from the first state on:
in its `on_start` state, its `on_start` timers armed, its `on_start` sends in the network.
Network = the datagrams in flight as a set (duplicating network); timers = armed keys; nobody crashed; no pending
random choices (the refinement theorems exclude `ChooseRandom`, see `C17_refines_random_fails`). -/
def abs (sys : ActorSys σ η) (rs : RSt σ η) : St σ η :=
  { actors := (List.range sys.n).map (fun i => (rs.st i).getD ((sys.actor i).start i).1)
    net := .dup (mkSet Env.lt (rs.flight ++ pending sys rs)) rs.last
    timers := (List.range sys.n).map (fun i =>
      match rs.st i with
      | some _ => mkSet natLt (armed (rs.ints i))
      | none => ((sys.actor i).start i).2.foldl applyTimerCmd [])
    random := List.replicate sys.n []
    crashed := List.replicate sys.n false
    hist := rs.hist }

/-! ### the model side: steps and paths of `ActorSys` -/

/-- `a` is offered in `s` and leads to `t` -/
def MStep (sys : ActorSys σ η) (s : St σ η) (a : Action) (t : St σ η) : Prop :=
  a ∈ actions sys s ∧ step sys s a = .next t

/-- a sequence of model steps -/
def MPath (sys : ActorSys σ η) : St σ η → List Action → St σ η → Prop
  | s, [], t => s = t
  | s, a :: as, t => ∃ m, MStep sys s a m ∧ MPath sys m as t

/-- executable form of `MPath` -/
def mrun (sys : ActorSys σ η) (s : St σ η) : List Action → Option (St σ η)
  | [] => some s
  | a :: as => if a ∈ actions sys s then (step sys s a).toOption.bind (fun m => mrun sys m as) else none

/-- the model actions a runtime step can stand for, in order (a sub-list of them is taken, see
`C17_refines_step`) -/
def modelActs : Lbl → List Action
  | .start _ _ => []
  | .tick _ => []
  | .lose e => [.drop e]
  | .deliver e keep _ => if keep then [.deliver e] else [.deliver e, .drop e]
  | .fire i (.timeout t) _ => [.timeout i t]
  | .fire _ (.random _) _ => []

/-! ### hypotheses of the refinement -/

def isChoose : Cmd → Bool
  | .chooseRandom _ _ => true
  | _ => false

/-- no handler emits `ChooseRandom` -/
structure NoRandom (sys : ActorSys σ η) : Prop where
  start : ∀ i, ∀ c ∈ ((sys.actor i).start i).2, isChoose c = false
  msg : ∀ i s src m ns cmds, (sys.actor i).msg i s src m = .ok ns cmds → ∀ c ∈ cmds, isChoose c = false
  timeout : ∀ i s t ns cmds, (sys.actor i).timeout i s t = .ok ns cmds → ∀ c ∈ cmds, isChoose c = false

/-- the model the runtime refines: unordered duplicating network, initially empty, lossy -/
structure UdpModel (sys : ActorSys σ η) : Prop where
  net : sys.initNet = .dup [] none
  lossy : sys.lossy = true

end SR.RtSys
