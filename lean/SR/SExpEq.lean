import SR.SExp
/-!
A decidable equality on S-expressions. `SExp` derives `BEq` only, and for this nested inductive the
derived `==` is an opaque constant (`#print SR.instBEqSExp.beq`): nothing can be proved about it.
Oracles that compare S-expressions use `sxEqv` / `sxDecEq` instead.
-/
namespace SR

mutual
@[instance_reducible] def sxDecEq : (a b : SExp) → Decidable (a = b)
  | .atom s, .atom t => if h : s = t then isTrue (h ▸ rfl) else isFalse (by intro e; cases e; exact h rfl)
  | .atom _, .list _ => isFalse (by intro e; cases e)
  | .list _, .atom _ => isFalse (by intro e; cases e)
  | .list xs, .list ys =>
    match sxListDecEq xs ys with
    | isTrue h => isTrue (h ▸ rfl)
    | isFalse h => isFalse (by intro e; cases e; exact h rfl)
@[instance_reducible] def sxListDecEq : (a b : List SExp) → Decidable (a = b)
  | [], [] => isTrue rfl
  | [], _ :: _ => isFalse (by intro e; cases e)
  | _ :: _, [] => isFalse (by intro e; cases e)
  | x :: xs, y :: ys =>
    match sxDecEq x y, sxListDecEq xs ys with
    | isTrue h1, isTrue h2 => isTrue (by rw [h1, h2])
    | isFalse h1, _ => isFalse (by intro e; cases e; exact h1 rfl)
    | _, isFalse h2 => isFalse (by intro e; cases e; exact h2 rfl)
end

attribute [local instance] sxDecEq in
/-- content comparison by the decidable equality: `d = done ∧ p = pend` -/
def sxEqv (d done : List SExp) (p pend : Option SExp) : Bool := decide (d = done) && decide (p = pend)

attribute [local instance] sxDecEq in
theorem sxEqv_iff (d done : List SExp) (p pend : Option SExp) : sxEqv d done p pend = true ↔ d = done ∧ p = pend := by
  simp [sxEqv]

end SR
