/-
Systems, paths, reachability: the abstract reading of `stateright::Model` (src/lib.rs) shared by the
checker machine (SR/Checker) and by every concrete model family (explicit graphs, actor systems).
-/
namespace SR

/-- A `Model`: `init_states`, `actions`, `next_state` (`none` = ignored action), `within_boundary`. -/
structure Sys (σ α : Type) where
  init : List σ
  acts : σ → List α
  next : σ → α → Option σ
  inB  : σ → Bool

namespace Sys
variable {σ α : Type}

/-- all successors, in action order (ignored actions dropped) -/
def succAll (M : Sys σ α) (s : σ) : List σ := (M.acts s).filterMap (M.next s)

/-- in-boundary successors, in action order — what the checkers enqueue -/
def succB (M : Sys σ α) (s : σ) : List σ := (M.succAll s).filter M.inB

/-- in-boundary initial states -/
def initB (M : Sys σ α) : List σ := M.init.filter M.inB

/-- reachable from an in-boundary initial state through in-boundary transitions -/
inductive Reach (M : Sys σ α) : σ → Prop
  | init {s} : s ∈ M.initB → Reach M s
  | step {s t} : Reach M s → t ∈ M.succB s → Reach M t

/-- consecutive states are in-boundary model steps -/
def Chain (M : Sys σ α) : List σ → Prop
  | [] => True
  | [_] => True
  | s :: t :: rest => t ∈ M.succB s ∧ Chain M (t :: rest)

/-- a real in-boundary path: nonempty, starts in an in-boundary initial state, follows model steps -/
def IsPath (M : Sys σ α) (p : List σ) : Prop :=
  ∃ s rest, p = s :: rest ∧ s ∈ M.initB ∧ M.Chain p

theorem mem_succB {M : Sys σ α} {s t : σ} :
    t ∈ M.succB s ↔ (∃ a ∈ M.acts s, M.next s a = some t) ∧ M.inB t = true := by
  simp [succB, succAll, List.mem_filter, List.mem_filterMap]

end Sys

/-- property expectations (src/lib.rs `Expectation`) -/
inductive Expect where
  | always | eventually | sometimes
deriving DecidableEq, Repr, Inhabited

/-- a property: expectation + condition; its name is its index in the property list -/
structure Prop' (σ : Type) where
  exp : Expect
  cond : σ → Bool

end SR
