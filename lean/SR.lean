import SR.SExp
import SR.Util.VClock
import SR.Util.DenseNatMap
import SR.Basic
